use pearl::{ArrayKey, BlobRecordTimestamp, Builder, Storage, ReadResult};
type K = ArrayKey<4>;
// F7: run under `strace -f -e trace=fsync -e inject=fsync:error=EIO:when=2+` so that every fsync
// after the one in Blob::open_new fails.
#[tokio::test(flavor = "multi_thread")]
async fn probe_close_with_failing_fsync() {
    let path = std::env::temp_dir().join(format!("pearl_probe5_{}", std::process::id()));
    let _ = std::fs::remove_dir_all(&path);
    let mut s: Storage<K> = Builder::new().work_dir(&path).blob_file_name_prefix("test")
        .max_blob_size(1_000_000).max_data_in_blob(1000).build().unwrap();
    s.init().await.unwrap();
    let k = K::from(vec![1, 0, 0, 0]);
    s.write(&k, vec![7u8; 100].into(), BlobRecordTimestamp::new(10)).await.unwrap();
    let before = s.read(&k).await;
    println!("PROBE before close: read={}", matches!(before, Ok(ReadResult::Found(_))));
    let r = s.try_close_active_blob().await;
    println!("PROBE close result ok={} blobs_count={}", r.is_ok(), s.blobs_count().await);
    let after = s.read(&k).await;
    println!("PROBE after failed close: found={} notfound={}", matches!(after, Ok(ReadResult::Found(_))), matches!(after, Ok(ReadResult::NotFound)));
    println!("PROBE records_count={}", s.records_count().await);
    let _ = std::fs::remove_dir_all(&path);
}
