use pearl::{ArrayKey, BlobRecordTimestamp, Builder, Storage, ReadResult};
type K = ArrayKey<4>;
// F8: restore of a closed blob whose index was already dumped to disk
#[tokio::test(flavor = "multi_thread")]
async fn probe_write_after_restore_of_dumped_blob() {
    let path = std::env::temp_dir().join(format!("pearl_probe6_{}", std::process::id()));
    let _ = std::fs::remove_dir_all(&path);
    let mut s: Storage<K> = Builder::new().work_dir(&path).blob_file_name_prefix("test")
        .max_blob_size(1_000_000).max_data_in_blob(1000).build().unwrap();
    s.init().await.unwrap();
    let k1 = K::from(vec![1, 0, 0, 0]);
    let k2 = K::from(vec![2, 0, 0, 0]);
    s.write(&k1, vec![7u8; 100].into(), BlobRecordTimestamp::new(10)).await.unwrap();
    s.try_close_active_blob().await.unwrap();
    tokio::time::sleep(std::time::Duration::from_millis(800)).await; // background index dump completes
    println!("PROBE index file exists: {}", path.join("test.0.index").exists());
    let r = s.try_restore_active_blob().await;
    println!("PROBE restore ok={}", r.is_ok());
    let w = s.write(&k2, vec![8u8; 100].into(), BlobRecordTimestamp::new(11)).await;
    println!("PROBE write after restore ok={} err={:?}", w.is_ok(), w.as_ref().err().map(|e| format!("{:#}", e)));
    let rd = s.read(&k2).await;
    println!("PROBE read k2 found={}", matches!(rd, Ok(ReadResult::Found(_))));
    let blob_len = std::fs::metadata(path.join("test.0.blob")).map(|m| m.len()).unwrap_or(0);
    println!("PROBE blob file length {}", blob_len);
    s.close().await.unwrap();
    let mut s2: Storage<K> = Builder::new().work_dir(&path).blob_file_name_prefix("test")
        .max_blob_size(1_000_000).max_data_in_blob(1000).build().unwrap();
    s2.init().await.unwrap();
    let rd = s2.read(&k2).await;
    println!("PROBE after restart read k2 found={}", matches!(rd, Ok(ReadResult::Found(_))));
    let _ = std::fs::remove_dir_all(&path);
}
