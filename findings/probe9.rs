// F9 reproduction (C13 "requested index dumps still complete"): a deferred index dump whose
// deadline fires while a dump task is still running is re-deferred WITHOUT re-arming the deadline,
// so it never runs unless some later event happens to schedule another deferral.
// Integration test, public API only. Put at tests/probe9.rs of a scratch copy:
//   TMPDIR=<private> cargo test --offline --test probe9 -- --nocapture
#[macro_use]
extern crate log;
use pearl::{BlobRecordTimestamp, Storage};
use std::time::{Duration, SystemTime};
use tokio::time::sleep;
mod common;
use common::KeyTest;

const N: u32 = 250_000;

#[tokio::test(flavor = "multi_thread", worker_threads = 4)]
async fn deferred_dump_survives_running_dump_task() {
    let path = common::init("probe9");
    let storage: Storage<KeyTest> = common::create_custom_test_storage(&path, |b| {
        b.max_blob_size(1 << 40)
            .max_data_in_blob(100_000_000)
            .set_deferred_index_dump_times(Duration::from_millis(40), Duration::from_millis(80))
    })
    .await
    .unwrap();
    let data = vec![7u8; 4];
    // blob 0: one record; blobs 1 and 2: large indexes
    storage.write(KeyTest::new(1), data.clone().into(), BlobRecordTimestamp::new(10)).await.unwrap();
    storage.try_close_active_blob().await.unwrap();
    for b in 0..2u32 {
        storage.try_create_active_blob().await.unwrap();
        for i in 0..N {
            storage.write(KeyTest::new(1000 + b * N + i), data.clone().into(), BlobRecordTimestamp::new(10)).await.unwrap();
        }
        storage.try_close_active_blob().await.unwrap();
    }
    storage.try_create_active_blob().await.unwrap();
    let mtime = |i: u32| std::fs::metadata(path.join(format!("test.{}.index", i))).unwrap().modified().unwrap();
    // all three closed blobs are dumped (index files exist)
    while !(0..3).all(|i| path.join(format!("test.{}.index", i)).exists()) { sleep(Duration::from_millis(5)).await; }
    sleep(Duration::from_millis(300)).await;
    let (m0, m1, m2) = (mtime(0), mtime(1), mtime(2));
    // markers into blobs 1 and 2: their indexes go back to memory, a deferred dump is requested;
    // its deadline (40..80 ms) starts ONE dump task over blob 1 (slow), [quantum break], blob 2 (slow)
    let t_start = std::time::Instant::now();
    assert_eq!(storage.delete(KeyTest::new(1000), BlobRecordTimestamp::new(20), true).await.unwrap(), 1);
    assert_eq!(storage.delete(KeyTest::new(1000 + N), BlobRecordTimestamp::new(20), true).await.unwrap(), 1);
    while mtime(1) == m1 { sleep(Duration::from_millis(1)).await; }
    println!("blob 1 index re-dumped after {:?}", t_start.elapsed());
    // delete in closed blob 0 while that task is still busy with blob 2: the marker is appended to
    // blob 0 (index back in memory) and a DEFERRED index dump is requested for it
    assert_eq!(storage.delete(KeyTest::new(1), BlobRecordTimestamp::new(20), true).await.unwrap(), 1);
    let t_delete = SystemTime::now();
    println!("delete in blob 0 done after {:?}; blob 2 re-dumped already: {}", t_start.elapsed(), mtime(2) != m2);
    while mtime(2) == m2 { sleep(Duration::from_millis(5)).await; }
    println!("dump task finished after {:?}", t_start.elapsed());
    // let everything settle: deferred deadlines (40..80 ms) pass many times over
    sleep(Duration::from_millis(1500)).await;
    assert!(mtime(0) > t_delete && mtime(0) != m0, "the requested (deferred) index dump of blob 0 never completed: its index file is older than the delete");
    common::clean(storage, path).await;
}
