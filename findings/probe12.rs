// C03 probe: damage the BODY of the index file of a closed (not last) blob, keeping its header intact,
// re-open and compare the answers. Index::from_file validates only the header (BPTreeFileIndex::validate
// has "FIXME: check hash here?"), so a damaged body is served from.
#[macro_use]
extern crate log;
use pearl::{BlobRecordTimestamp, ReadResult, Storage};
mod common;
use common::KeyTest;

#[tokio::test]
async fn damaged_index_body_of_closed_blob_changes_no_answer() {
    let path = common::init("probe12");
    let open = || common::create_custom_test_storage(&path, |b| b.max_blob_size(1 << 30).max_data_in_blob(1_000_000));
    let storage: Storage<KeyTest> = open().await.unwrap();
    let n = 60u32;
    for i in 0..n {
        storage.write(KeyTest::new(i), vec![i as u8; 10].into(), BlobRecordTimestamp::new(10)).await.unwrap();
    }
    storage.try_close_active_blob().await.unwrap();
    storage.try_create_active_blob().await.unwrap();
    storage.write(KeyTest::new(1000), vec![1u8; 10].into(), BlobRecordTimestamp::new(10)).await.unwrap();
    storage.close().await.unwrap();
    let idx = path.join("test.0.index");
    let mut bytes = std::fs::read(&idx).unwrap();
    let len = bytes.len();
    let mode = std::env::var("MODE").unwrap_or("zero".into());
    if mode == "zero" {
        // zero the record-header (leaf) section: 60 headers of 61 bytes before the tree nodes at the end
        let from = len - 4096 - 60 * 61; let to = len - 4096;
        for b in &mut bytes[from..to] { *b = 0; }
    } else {
        // truncate inside the leaf section (size of the damage given in bytes from the end)
        let cut: usize = mode.parse().unwrap();
        bytes.truncate(len - cut);
    }
    std::fs::write(&idx, &bytes).unwrap();
    let storage: Storage<KeyTest> = open().await.unwrap();
    let mut wrong = Vec::new();
    for i in 0..n {
        match storage.read(KeyTest::new(i)).await {
            Ok(ReadResult::Found(d)) if d.as_ref() == &vec![i as u8; 10][..] => {}
            other => wrong.push((i, format!("{:?}", other).chars().take(60).collect::<String>())),
        }
    }
    println!("index length {}, mode {}: {} of {} keys of blob 0 not served; first: {:?}", len, mode, wrong.len(), n, wrong.first());
    assert!(wrong.is_empty(), "a damaged index file changed answers");
    common::clean(storage, path).await;
}
