mod common;
use common::KeyTest;
use bytes::Bytes;
use pearl::BlobRecordTimestamp;

#[tokio::test(flavor = "multi_thread")]
async fn probe_explicit_fsync() {
    let path = common::init("probe_fsync");
    let s = common::create_test_storage(&path, 1_000_000).await.unwrap();
    tokio::time::sleep(std::time::Duration::from_millis(300)).await;
    eprintln!("MARK-A before write");
    s.write(KeyTest::new(1), Bytes::from(vec![1u8; 1000]), BlobRecordTimestamp::new(1)).await.unwrap();
    tokio::time::sleep(std::time::Duration::from_millis(300)).await;
    eprintln!("MARK-B before explicit fsyncdata");
    s.fsyncdata().await.unwrap();
    tokio::time::sleep(std::time::Duration::from_millis(300)).await;
    eprintln!("MARK-C after explicit fsyncdata, before close_active_blob");
    s.try_close_active_blob().await.unwrap();
    tokio::time::sleep(std::time::Duration::from_millis(300)).await;
    eprintln!("MARK-D after close_active_blob");
    common::clean(s, path).await;
}
