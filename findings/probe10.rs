// C03 probe: truncate the index file of a CLOSED (not last) blob at every length and compare the
// answers after re-opening with the answers before the close.
#[macro_use]
extern crate log;
use pearl::{BlobRecordTimestamp, ReadResult, Storage};
mod common;
use common::KeyTest;

#[tokio::test]
async fn truncated_index_of_closed_blob_changes_no_answer() {
    let path = common::init("probe10");
    let open = || common::create_custom_test_storage(&path, |b| b.max_blob_size(1 << 30).max_data_in_blob(1_000_000));
    let storage: Storage<KeyTest> = open().await.unwrap();
    let n = 60u32;
    for i in 0..n {
        storage.write(KeyTest::new(i), vec![i as u8; 10].into(), BlobRecordTimestamp::new(10)).await.unwrap();
    }
    storage.try_close_active_blob().await.unwrap();
    storage.try_create_active_blob().await.unwrap();
    storage.write(KeyTest::new(1000), vec![1u8; 10].into(), BlobRecordTimestamp::new(10)).await.unwrap();
    storage.close().await.unwrap();
    let idx = path.join("test.0.index");
    let full = std::fs::read(&idx).unwrap();
    println!("index file length {}", full.len());
    let mut bad = Vec::new();
    for len in 0..full.len() {
        std::fs::write(&idx, &full[..len]).unwrap();
        let storage: Storage<KeyTest> = match open().await { Ok(s) => s, Err(e) => { bad.push((len, format!("init failed: {}", e))); continue; } };
        let mut wrong = 0;
        for i in 0..n {
            match storage.read(KeyTest::new(i)).await {
                Ok(ReadResult::Found(d)) if d.as_ref() == &vec![i as u8; 10][..] => {}
                _ => wrong += 1,
            }
        }
        if wrong > 0 { bad.push((len, format!("{} of {} keys of blob 0 not served", wrong, n))); }
        storage.close().await.unwrap();
    }
    for (l, m) in bad.iter().take(10) { println!("truncated to {} bytes: {}", l, m); }
    println!("{} truncation lengths change answers (first {:?}, last {:?})", bad.len(), bad.first().map(|x| x.0), bad.last().map(|x| x.0));
    assert!(bad.is_empty());
}
