// F10 reproduction (C15 "the per-blob counts ... always equal the values implied by the history"):
// Safe::records_count_detailed labels the ACTIVE blob with the NUMBER of closed blobs instead of its id.
// With a gap in the ids (a blob quarantined at start-up) the active blob's count is reported under the
// id of a blob that no longer exists in the storage.
#[macro_use]
extern crate log;
use pearl::{BlobRecordTimestamp, Storage};
mod common;
use common::KeyTest;

#[tokio::test]
async fn detailed_counts_are_labelled_with_blob_ids() {
    let path = common::init("probe11");
    let open = || common::create_custom_test_storage(&path, |b| b.max_blob_size(1 << 30).max_data_in_blob(1_000_000));
    let storage: Storage<KeyTest> = open().await.unwrap();
    // blob 0: 1 record, blob 1: 2 records, blob 2: 3 records
    let mut k = 0u32;
    for b in 0..3u32 {
        for _ in 0..=b { storage.write(KeyTest::new(k), vec![1u8; 8].into(), BlobRecordTimestamp::new(10)).await.unwrap(); k += 1; }
        if b < 2 { storage.try_close_active_blob().await.unwrap(); storage.try_create_active_blob().await.unwrap(); }
    }
    assert_eq!(storage.records_count_detailed().await, vec![(0, 1), (1, 2), (2, 3)]);
    storage.close().await.unwrap();
    // blob 1 is damaged: it is quarantined at the next start
    std::fs::OpenOptions::new().write(true).open(path.join("test.1.blob")).unwrap().set_len(1).unwrap();
    let _ = std::fs::remove_file(path.join("test.1.index"));
    let storage: Storage<KeyTest> = open().await.unwrap();
    assert_eq!(storage.corrupted_blobs_count(), 1);
    assert!(path.join("test.0.blob").exists() && !path.join("test.1.blob").exists() && path.join("test.2.blob").exists());
    let d = storage.records_count_detailed().await;
    println!("records_count_detailed = {:?}", d);
    // the blobs that exist are 0 (1 record) and 2 (3 records, active)
    assert_eq!(d, vec![(0, 1), (2, 3)], "per-blob counts must be reported under the ids of the blobs that exist");
    common::clean(storage, path).await;
}
