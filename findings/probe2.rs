mod common;
use common::KeyTest;
use bytes::Bytes;
use pearl::{BlobRecordTimestamp, Storage};
use std::path::Path;

async fn w(s: &Storage<KeyTest>, k: u32, ts: u64, d: &[u8]) {
    s.write(KeyTest::new(k), Bytes::copy_from_slice(d), BlobRecordTimestamp::new(ts)).await.unwrap();
}
fn blob_files(p: &Path) -> Vec<String> {
    let mut v: Vec<String> = match std::fs::read_dir(p) { Ok(d) => d.filter_map(|e| { let n = e.unwrap().file_name().into_string().unwrap(); if n.ends_with(".blob") {Some(n)} else {None} }).collect(), Err(_) => vec![] };
    v.sort(); v
}

#[tokio::test(flavor = "multi_thread")]
async fn probe_recovery_skip() {
    let path = common::init("probe_recover");
    {
        let s = common::create_test_storage(&path, 1_000_000).await.unwrap();
        w(&s, 1, 1, &[1u8; 100]).await;
        w(&s, 2, 2, &[2u8; 100]).await;
        w(&s, 3, 3, &[3u8; 100]).await;
        s.close().await.unwrap();
    }
    let blob = path.join("test.0.blob");
    let bytes = std::fs::read(&blob).unwrap();
    println!("PROBE blob len {}", bytes.len());
    // record layout: blob header 20 bytes; record header = 8 magic + 8 len + 4 key + 8 meta_size + 8 data_size + 1 flags + 8 off + 8 ts + 4 + 4 = 61; meta (empty map) 8; data 100
    let rec = 61 + 8 + 100;
    let second = 20 + rec;
    let mut damaged = bytes.clone();
    damaged[second + 8 + 8 + 4 + 8 + 8 + 1 + 8] ^= 0x01; // timestamp byte of record 2 header
    std::fs::remove_file(path.join("test.0.index")).ok();
    let out_dir = path.join("out");
    std::fs::create_dir_all(&out_dir).unwrap();
    let dam = path.join("damaged.0.blob");
    std::fs::write(&dam, &damaged).unwrap();
    let out = out_dir.join("test.0.blob");
    let r = pearl::tools::recovery_blob(&dam, &out, 1, true);
    println!("PROBE recovery result {:?} out len {:?}", r.is_ok(), std::fs::metadata(&out).map(|m| m.len()));
    println!("PROBE validate out: {:?}", pearl::tools::validate_blob(&out).is_ok());
    let s = common::create_test_storage(&out_dir, 1_000_000).await.unwrap();
    for k in [1u32, 2, 3] {
        let r = s.read(KeyTest::new(k)).await;
        println!("PROBE read key {} -> {}", k, match &r { Ok(pearl::ReadResult::Found(b)) => format!("Found len {} first {}", b.len(), b[0]), Ok(pearl::ReadResult::NotFound) => "NotFound".into(), Ok(pearl::ReadResult::Deleted(_)) => "Deleted".into(), Err(e) => format!("ERR {:#}", e).chars().take(160).collect() });
    }
    s.close().await.unwrap();
}

#[tokio::test(flavor = "multi_thread")]
async fn probe_quarantine_overwrite() {
    let path = common::init("probe_qover");
    let damage = |p: &Path| {
        use std::io::{Seek, SeekFrom, Write};
        let mut f = std::fs::OpenOptions::new().write(true).open(p).unwrap();
        f.seek(SeekFrom::Start(20)).unwrap();
        f.write_all(&[0u8; 8]).unwrap();
        let _ = std::fs::remove_file(p.with_extension("index"));
    };
    {
        let s = common::create_test_storage(&path, 1_000_000).await.unwrap();
        w(&s, 1, 1, b"a").await;
        s.try_close_active_blob().await.unwrap();
        s.try_create_active_blob().await.unwrap();
        w(&s, 2, 1, &[7u8; 500]).await;
        s.close().await.unwrap();
    }
    damage(&path.join("test.1.blob"));
    let first_q;
    {
        let s = common::create_test_storage(&path, 1_000_000).await.unwrap();
        first_q = std::fs::read(path.join("corrupted/test.1.blob")).unwrap();
        println!("PROBE q1 corrupted={:?} len={}", blob_files(&path.join("corrupted")), first_q.len());
        s.close().await.unwrap();
    }
    {
        let s = common::create_test_storage(&path, 1_000_000).await.unwrap();
        s.try_close_active_blob().await.unwrap();
        s.try_create_active_blob().await.unwrap();
        w(&s, 3, 1, b"c").await;
        println!("PROBE s3 files={:?}", blob_files(&path));
        s.close().await.unwrap();
    }
    damage(&path.join("test.1.blob"));
    {
        let s = common::create_test_storage(&path, 1_000_000).await.unwrap();
        let second_q = std::fs::read(path.join("corrupted/test.1.blob")).unwrap();
        println!("PROBE q2 corrupted={:?} len={} same_as_first={}", blob_files(&path.join("corrupted")), second_q.len(), second_q == first_q);
        s.close().await.unwrap();
    }
}
