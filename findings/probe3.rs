mod common;
use common::KeyTest;
use bytes::Bytes;
use pearl::{BlobRecordTimestamp, Storage, ReadResult};
use std::time::Duration;

async fn w(s: &Storage<KeyTest>, k: u32, ts: u64, d: &[u8]) {
    s.write(KeyTest::new(k), Bytes::copy_from_slice(d), BlobRecordTimestamp::new(ts)).await.unwrap();
}
fn show(r: &anyhow::Result<ReadResult<Bytes>>) -> String {
    match r { Ok(ReadResult::Found(b)) => format!("Found len {}", b.len()), Ok(ReadResult::NotFound) => "NotFound".into(), Ok(ReadResult::Deleted(_)) => "Deleted".into(), Err(e) => format!("ERR {:#}", e).chars().take(120).collect() }
}

#[tokio::test(flavor = "multi_thread")]
async fn probe_dump_failure_loses_index() {
    let path = common::init("probe_dumpfail");
    let s = common::create_test_storage(&path, 1_000_000).await.unwrap();
    w(&s, 1, 1, &[1u8; 100]).await;
    w(&s, 2, 2, &[2u8; 100]).await;
    println!("PROBE before: read1={} count={}", show(&s.read(KeyTest::new(1)).await), s.records_count().await);
    // make the index path un-creatable: a directory with that name
    std::fs::create_dir_all(path.join("test.0.index")).unwrap();
    let r = s.try_close_active_blob().await;
    println!("PROBE close result ok={}", r.is_ok());
    tokio::time::sleep(Duration::from_millis(1500)).await;
    println!("PROBE after failed dump: read1={} read2={} count={}", show(&s.read(KeyTest::new(1)).await), show(&s.read(KeyTest::new(2)).await), s.records_count().await);
    std::fs::remove_dir_all(path.join("test.0.index")).unwrap();
    tokio::time::sleep(Duration::from_millis(300)).await;
    println!("PROBE fault cleared: read1={} count={}", show(&s.read(KeyTest::new(1)).await), s.records_count().await);
    let _ = s.close().await;
    let s = common::create_test_storage(&path, 1_000_000).await.unwrap();
    println!("PROBE after restart: read1={} count={}", show(&s.read(KeyTest::new(1)).await), s.records_count().await);
    common::clean(s, path).await;
}

#[tokio::test(flavor = "multi_thread")]
async fn probe_worker_dies_on_inapplicable_request() {
    let path = common::init("probe_worker");
    let s = common::create_custom_test_storage(&path, |b| b.max_blob_size(1_000_000).max_data_in_blob(3)).await.unwrap();
    w(&s, 1, 1, b"a").await;
    s.create_active_blob_in_background().await; // active blob already exists -> cannot apply
    tokio::time::sleep(Duration::from_millis(500)).await;
    for k in 10..30u32 { w(&s, k, 1, b"x").await; tokio::time::sleep(Duration::from_millis(30)).await; }
    tokio::time::sleep(Duration::from_millis(1000)).await;
    println!("PROBE after overflow (limit 3 records/blob, 21 written): blobs_count={} in_active={:?}", s.blobs_count().await, s.records_count_in_active_blob().await);
    let r = tokio::time::timeout(Duration::from_secs(5), s.close()).await;
    println!("PROBE close returned: {:?}", r.map(|x| x.is_ok()));
}

#[tokio::test(flavor = "multi_thread")]
async fn probe_worker_control() {
    let path = common::init("probe_worker_ctl");
    let s = common::create_custom_test_storage(&path, |b| b.max_blob_size(1_000_000).max_data_in_blob(3)).await.unwrap();
    w(&s, 1, 1, b"a").await;
    tokio::time::sleep(Duration::from_millis(500)).await;
    for k in 10..30u32 { w(&s, k, 1, b"x").await; tokio::time::sleep(Duration::from_millis(30)).await; }
    tokio::time::sleep(Duration::from_millis(1000)).await;
    println!("PROBE control (no bad request): blobs_count={} in_active={:?}", s.blobs_count().await, s.records_count_in_active_blob().await);
    common::clean(s, path).await;
}
