mod common;
use common::KeyTest;
use bytes::Bytes;
use pearl::{BlobRecordTimestamp, Storage};
use std::path::Path;

async fn w(s: &Storage<KeyTest>, k: u32, ts: u64, d: &[u8]) {
    s.write(KeyTest::new(k), Bytes::copy_from_slice(d), BlobRecordTimestamp::new(ts)).await.unwrap();
}

fn blob_files(p: &Path) -> Vec<String> {
    let mut v: Vec<String> = std::fs::read_dir(p).unwrap().filter_map(|e| { let n = e.unwrap().file_name().into_string().unwrap(); if n.ends_with(".blob") {Some(n)} else {None} }).collect();
    v.sort(); v
}

#[tokio::test(flavor = "multi_thread")]
async fn probe_blobs_count_after_restore() {
    let path = common::init("probe_restore");
    let s = common::create_test_storage(&path, 1_000_000).await.unwrap();
    w(&s, 1, 1, b"a").await;
    s.try_close_active_blob().await.unwrap();
    s.try_create_active_blob().await.unwrap();
    w(&s, 2, 1, b"b").await;
    println!("PROBE before: blobs_count={} files={:?} detailed={:?}", s.blobs_count().await, blob_files(&path), s.records_count_detailed().await);
    s.try_close_active_blob().await.unwrap();
    println!("PROBE closed: blobs_count={} files={:?} detailed={:?}", s.blobs_count().await, blob_files(&path), s.records_count_detailed().await);
    s.try_restore_active_blob().await.unwrap();
    println!("PROBE restored: blobs_count={} files={:?} detailed={:?}", s.blobs_count().await, blob_files(&path), s.records_count_detailed().await);
    common::clean(s, path).await;
}

#[tokio::test(flavor = "multi_thread")]
async fn probe_id_reuse_after_quarantine() {
    let path = common::init("probe_idreuse");
    {
        let s = common::create_test_storage(&path, 1_000_000).await.unwrap();
        w(&s, 1, 1, b"a").await;
        s.try_close_active_blob().await.unwrap();
        s.try_create_active_blob().await.unwrap();
        w(&s, 2, 1, b"b").await;
        println!("PROBE s1 files={:?} next={}", blob_files(&path), s.next_blob_id());
        s.close().await.unwrap();
    }
    // damage blob 1 (highest id): break first record magic
    {
        use std::io::{Seek, SeekFrom, Write};
        let mut f = std::fs::OpenOptions::new().write(true).open(path.join("test.1.blob")).unwrap();
        f.seek(SeekFrom::Start(20)).unwrap();
        f.write_all(&[0u8; 8]).unwrap();
        let _ = std::fs::remove_file(path.join("test.1.index"));
    }
    {
        let s = common::create_test_storage(&path, 1_000_000).await.unwrap();
        println!("PROBE s2 files={:?} corrupted={:?} next={} corrupted_count={}", blob_files(&path), blob_files(&path.join("corrupted")), s.next_blob_id(), s.corrupted_blobs_count());
        s.close().await.unwrap();
    }
    {
        let s = common::create_test_storage(&path, 1_000_000).await.unwrap();
        println!("PROBE s3 files={:?} corrupted={:?} next={}", blob_files(&path), blob_files(&path.join("corrupted")), s.next_blob_id());
        s.try_close_active_blob().await.unwrap();
        s.try_create_active_blob().await.unwrap();
        println!("PROBE s3 after create files={:?} corrupted={:?} next={}", blob_files(&path), blob_files(&path.join("corrupted")), s.next_blob_id());
        common::clean(s, path).await;
    }
}
