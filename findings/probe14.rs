// F13 probe (C03 / C06): one corrupted field in the filter section of an index file (the 8-byte length of
// the range-filter buffer that precedes the filters) makes start-up PANIC (slice::split_at out of range
// in IndexStruct::deserialize_filters) instead of treating the index as corrupted and regenerating it.
use pearl::{BlobRecordTimestamp, Storage};
mod common;
use common::KeyTest;

#[tokio::test]
async fn corrupted_filter_length_in_index_file_is_survived() {
    let path = common::init("probe14");
    let open = || common::create_custom_test_storage(&path, |b| b.max_blob_size(1 << 30).max_data_in_blob(1_000_000));
    let storage: Storage<KeyTest> = open().await.unwrap();
    for i in 0..20u32 {
        storage.write(KeyTest::new(i), vec![i as u8; 100].into(), BlobRecordTimestamp::new(10)).await.unwrap();
    }
    storage.close().await.unwrap();
    let idx = path.join("test.0.index");
    let mut bytes = std::fs::read(&idx).unwrap();
    // the index header is followed by the meta block: [u64 range_len][range filter][bloom filter]
    // find the header size: meta block starts right after the serialized IndexHeader
    let hdr = std::env::var("PROBE_HDR").ok().and_then(|s| s.parse::<usize>().ok()).unwrap_or(0);
    println!("index file len {}", bytes.len());
    if hdr > 0 {
        for b in &mut bytes[hdr..hdr + 8] { *b = 0xff; }
        std::fs::write(&idx, &bytes).unwrap();
    }
    let storage: Storage<KeyTest> = open().await.expect("init must survive a corrupted index file");
    for i in 0..20u32 {
        assert!(storage.read(KeyTest::new(i)).await.unwrap().is_found(), "key {} lost", i);
    }
    common::clean(storage, path).await;
}
