// F12 probe (C11 / C05): an existing blob is opened with O_APPEND (IoDriver::open: `.append(true)`), and on
// Linux pwrite() on an O_APPEND descriptor IGNORES the offset and appends at the real end of file. The file
// layer reserves the offset of a record before writing it (size.fetch_add) and never gives it back, so
// after ONE failed record write into a restored active blob the next, successful and acknowledged, write
// lands at another place than the offset stored in its index entry: the acknowledged record cannot be
// read in this session.
#[macro_use]
extern crate log;
use pearl::{BlobRecordTimestamp, ReadResult, Storage};
mod common;
use common::KeyTest;

fn set_fsize_limit(limit: Option<u64>) {
    unsafe {
        // exceeding RLIMIT_FSIZE raises SIGXFSZ; with the signal ignored write() returns EFBIG
        libc::signal(libc::SIGXFSZ, libc::SIG_IGN);
        let mut lim: libc::rlimit = std::mem::zeroed();
        assert_eq!(libc::getrlimit(libc::RLIMIT_FSIZE, &mut lim), 0);
        lim.rlim_cur = limit.map_or(lim.rlim_max, |l| l as libc::rlim_t);
        assert_eq!(libc::setrlimit(libc::RLIMIT_FSIZE, &lim), 0);
    }
}

#[tokio::test]
async fn acknowledged_write_after_a_failed_write_in_a_restored_blob_is_readable() {
    let path = common::init("probe13");
    let open = || common::create_custom_test_storage(&path, |b| b.max_blob_size(1 << 30).max_data_in_blob(1_000_000));
    let storage: Storage<KeyTest> = open().await.unwrap();
    storage.write(KeyTest::new(1), vec![1u8; 100].into(), BlobRecordTimestamp::new(10)).await.unwrap();
    storage.close().await.unwrap();
    // restart: the active blob is the existing file, re-opened by IoDriver::open
    let storage: Storage<KeyTest> = open().await.unwrap();
    let size = std::fs::metadata(path.join("test.0.blob")).unwrap().len();
    // ONE failing file operation: the file may not grow beyond 50 more bytes
    set_fsize_limit(Some(size + 50));
    let r = storage.write(KeyTest::new(2), vec![2u8; 300].into(), BlobRecordTimestamp::new(10)).await;
    set_fsize_limit(None);
    println!("write that hit the fault: {:?}", r.as_ref().map_err(|e| e.to_string()));
    assert!(r.is_err(), "the fault was not hit");
    // the fault has cleared: this write is acknowledged
    storage.write(KeyTest::new(3), vec![3u8; 200].into(), BlobRecordTimestamp::new(10)).await.expect("write after the fault cleared");
    let got = storage.read(KeyTest::new(3)).await;
    println!("read of the acknowledged record: {:?}", got.as_ref().map(|r| r.is_found()).map_err(|e| format!("{:#}", e)));
    match got {
        Ok(ReadResult::Found(d)) => assert_eq!(d.as_ref(), &vec![3u8; 200][..], "wrong bytes served"),
        other => panic!("acknowledged record is not served: {:?}", other.map(|_| ()).map_err(|e| format!("{:#}", e))),
    }
    // earlier record still fine
    assert!(storage.read(KeyTest::new(1)).await.unwrap().is_found());
    common::clean(storage, path).await;
}
