// Specification of the leaf packing (C09) and the lemmas the loop proof needs.
pub type Ents = Seq<(Seq<u8>, Seq<RecordHeader>)>;

// byte offset (relative to the start of the header array) of the first header of entry `upto`
pub open spec fn sum_sizes(e: Ents, upto: int, rhs: int) -> int
    decreases upto
{
    if upto <= 0 { 0 } else { sum_sizes(e, upto - 1, rhs) + e[upto - 1].1.len() as int * rhs }
}

// index of the last leaf whose first entry is <= i
pub open spec fn leaf_of(idxs: Seq<int>, i: int) -> int
    decreases idxs.len()
{
    if idxs.len() == 0 { -1 }
    else if idxs.last() <= i { idxs.len() - 1 }
    else { leaf_of(idxs.drop_last(), i) }
}

// entry i lies in the leaf chosen by leaf_of over (closed leaves ++ the open leaf starting at
// entry `min_idx`, offset `min_o`), and its first header ends within the first 4096 bytes of it
pub open spec fn entry_in_block(e: Ents, leaves: Seq<(Vec<u8>, u64)>, idxs: Seq<int>, min_idx: int, min_o: int, i: int, rhs: int) -> bool {
    let j = leaf_of(idxs.push(min_idx), i);
    0 <= j < idxs.len() + 1
        && sum_sizes(e, i, rhs) - (if j < idxs.len() { leaves[j].1 as int } else { min_o }) + rhs <= 4096
}

// the C09 packing property, from the statement: every leaf starts at a key boundary, leaf keys
// strictly increase, and the FIRST header of EVERY key lies wholly inside the first BLOCK_SIZE
// bytes of its leaf (so the in-leaf binary search over one block can see it)
pub open spec fn packing_ok(e: Ents, leaves: Seq<(Vec<u8>, u64)>, idxs: Seq<int>, upto: int, rhs: int) -> bool {
    &&& leaves.len() == idxs.len() && leaves.len() >= 1
    &&& idxs[0] == 0
    &&& forall|j: int| 0 <= j < leaves.len() ==> 0 <= #[trigger] idxs[j] < e.len()
            && leaves[j].0@ == e[idxs[j]].0 && leaves[j].1 as int == sum_sizes(e, idxs[j], rhs)
    &&& forall|j: int, k: int| 0 <= j < k < leaves.len() ==> idxs[j] < idxs[k]
    &&& forall|i: int| 0 <= i < upto ==>
            #[trigger] entry_in_block(e, leaves.drop_last(), idxs.drop_last(), idxs.last(), leaves.last().1 as int, i, rhs)
}

pub proof fn lemma_sum_step(e: Ents, i: int, rhs: int)
    requires 0 <= i < e.len(), rhs >= 0
    ensures sum_sizes(e, i + 1, rhs) == sum_sizes(e, i, rhs) + e[i].1.len() as int * rhs,
            sum_sizes(e, i, rhs) >= 0
    decreases i
{
    if i > 0 {
        lemma_sum_step(e, i - 1, rhs);
        assert(e[i - 1].1.len() as int * rhs >= 0) by (nonlinear_arith) requires e[i - 1].1.len() as int >= 0, rhs >= 0;
    }
}

pub proof fn lemma_sum_mono(e: Ents, a: int, b: int, rhs: int)
    requires 0 <= a <= b <= e.len(), rhs >= 0
    ensures sum_sizes(e, a, rhs) <= sum_sizes(e, b, rhs), sum_sizes(e, a, rhs) >= 0
    decreases b - a
{
    if a < b {
        lemma_sum_mono(e, a, b - 1, rhs);
        lemma_sum_step(e, b - 1, rhs);
        assert(e[b - 1].1.len() as int * rhs >= 0) by (nonlinear_arith) requires e[b - 1].1.len() as int >= 0, rhs >= 0;
    } else {
        if a > 0 { lemma_sum_step(e, a - 1, rhs); }
    }
}
