// The grouping policy of one non-leaf layer (C09). BOTH layer loops (collect_next_layer_nodes,
// which records the offsets, and shift_all_and_write, which writes the nodes) are proved against
// this single spec function, so the recorded offsets are the written positions.
pub open spec fn imin(a: int, b: int) -> int { if a <= b { a } else { b } }

// sizes of the consecutive groups formed from nodes cur..n
pub open spec fn groups(n: int, cur: int, min_a: int, max_a: int) -> Seq<int>
    decreases n - cur
{
    if 1 <= min_a <= max_a && 0 <= cur <= n && n - cur > max_a {
        let a = imin(max_a, n - cur - min_a);
        seq![a].add(groups(n, cur + a, min_a, max_a))
    } else {
        seq![n - cur]
    }
}

// serialized size of a node with `keys_amount` keys of `key_size` bytes: NodeMeta (8) + keys + (keys+1) offsets
pub open spec fn node_size(key_size: int, keys_amount: int) -> int { 8 + key_size * keys_amount + (keys_amount + 1) * 8 }

// byte offset of group i inside its layer
pub open spec fn sizes_sum(g: Seq<int>, upto: int, ks: int) -> int
    decreases upto
{ if upto <= 0 { 0 } else { sizes_sum(g, upto - 1, ks) + node_size(ks, g[upto - 1] - 1) } }

// index (in the lower layer) of the first node of group i
pub open spec fn group_start(g: Seq<int>, upto: int) -> int
    decreases upto
{ if upto <= 0 { 0 } else { group_start(g, upto - 1) + g[upto - 1] } }

pub proof fn lemma_groups_unfold(n: int, cur: int, min_a: int, max_a: int)
    requires 1 <= min_a <= max_a, 0 <= cur <= n, n - cur > max_a
    ensures groups(n, cur, min_a, max_a) == seq![imin(max_a, n - cur - min_a)].add(groups(n, cur + imin(max_a, n - cur - min_a), min_a, max_a))
{}

pub proof fn lemma_groups_last(n: int, cur: int, min_a: int, max_a: int)
    requires !(1 <= min_a <= max_a && 0 <= cur <= n && n - cur > max_a)
    ensures groups(n, cur, min_a, max_a) == seq![n - cur]
{}

// every group respects the fan-out bounds: C09 "every group within [min,max]"
pub proof fn lemma_groups_bounds(n: int, cur: int, min_a: int, max_a: int)
    requires 1 <= min_a <= max_a, 2 * min_a <= max_a + 1, 0 <= cur < n
    ensures
        forall|i: int| 0 <= i < groups(n, cur, min_a, max_a).len() ==> 1 <= #[trigger] groups(n, cur, min_a, max_a)[i] <= max_a,
        n - cur >= min_a ==> forall|i: int| 0 <= i < groups(n, cur, min_a, max_a).len() ==> min_a <= #[trigger] groups(n, cur, min_a, max_a)[i],
    decreases n - cur
{
    if n - cur > max_a {
        let a = imin(max_a, n - cur - min_a);
        lemma_groups_unfold(n, cur, min_a, max_a);
        assert(a >= min_a);
        assert(n - (cur + a) >= min_a);
        lemma_groups_bounds(n, cur + a, min_a, max_a);
        let g = groups(n, cur, min_a, max_a);
        let t = groups(n, cur + a, min_a, max_a);
        assert forall|i: int| 0 <= i < g.len() implies 1 <= #[trigger] g[i] <= max_a && min_a <= g[i] by {
            if i == 0 { } else { assert(g[i] == t[i - 1]); }
        }
    } else {
    }
}
