// insertion keeps every old element and adds the new one
pub proof fn lemma_insert_contains<T>(s: Seq<T>, pos: int, x: T)
    requires 0 <= pos <= s.len()
    ensures s.insert(pos, x).contains(x),
        forall|y: T| s.contains(y) ==> #[trigger] s.insert(pos, x).contains(y),
{
    assert(s.insert(pos, x)[pos] == x);
    assert forall|y: T| s.contains(y) implies #[trigger] s.insert(pos, x).contains(y) by {
        let i = choose|i: int| 0 <= i < s.len() && s[i] == y;
        if i < pos { assert(s.insert(pos, x)[i] == y); } else { assert(s.insert(pos, x)[i + 1] == y); }
    }
}
