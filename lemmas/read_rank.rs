// a list cut immediately AFTER its first deletion marker
pub open spec fn cut_after_first_marker(full: Seq<Entry>, r: Seq<Entry>) -> bool {
    r.len() <= full.len() && r == full.subrange(0, r.len() as int)
    && (forall|i: int| 0 <= i < r.len() - 1 ==> !r[i].deleted())
    && (r.len() < full.len() ==> r.len() > 0 && r[r.len() - 1].deleted())
    && (r.len() == full.len() ==> forall|i: int| 0 <= i < r.len() - 1 ==> !full[i].deleted())
}
// C01: the cross-blob merge is a left fold of `latest` (first seen wins ties; blobs are visited
// active first, then closed blobs newest first)
pub open spec fn latest_of(a: ReadResult<Entry>, b: ReadResult<Entry>) -> ReadResult<Entry> {
    if opt_ts_gt_spec(rre_ts(b), rre_ts(a)) { b } else { a }
}
pub open spec fn fold_latest(init: ReadResult<Entry>, items: Seq<Result<ReadResult<Entry>, VErr>>) -> ReadResult<Entry>
    decreases items.len()
{
    if items.len() == 0 { init }
    else if items[0] is Ok { fold_latest(latest_of(init, items[0]->Ok_0), items.drop_first()) }
    else { init }
}
pub open spec fn all_ok(items: Seq<Result<ReadResult<Entry>, VErr>>) -> bool {
    forall|i: int| 0 <= i < items.len() ==> (#[trigger] items[i]) is Ok
}

// C01 composition: one version of a key as the ranking sees it
pub struct Ver { pub ts: u64, pub deleted: bool }
// a blob's versions of the key in index order: ascending timestamp, later appended later among ties
pub open spec fn ver_sorted(v: Seq<Ver>) -> bool { forall|i: int, j: int| 0 <= i <= j < v.len() ==> v[i].ts <= v[j].ts }
// what one blob answers for the key (Blob::get_latest_entry without metadata: classify(latest_version))
pub open spec fn blob_answer(v: Seq<Ver>, a: ReadResult<Entry>) -> bool {
    if v.len() == 0 { a is NotFound }
    else if v.last().deleted { a == ReadResult::<Entry>::Deleted(BlobRecordTimestamp(v.last().ts)) }
    else { a is Found && a->Found_0.ts() == v.last().ts }
}
// blob i's newest version ranks first among all versions in the first n blobs (index 0 = visited
// first = most recently created): greatest timestamp, then most recently created blob, then (inside
// blob i, by ver_sorted and the append order) most recently appended
pub open spec fn winner(vs: Seq<Seq<Ver>>, n: int, i: int) -> bool {
    0 <= i < n && vs[i].len() > 0
    && forall|j: int, p: int| 0 <= j < n && 0 <= p < vs[j].len() ==>
        (#[trigger] vs[j][p]).ts < vs[i].last().ts || (vs[j][p].ts == vs[i].last().ts && j >= i)
}
pub open spec fn top_ranked(vs: Seq<Seq<Ver>>, n: int, r: ReadResult<Entry>) -> bool {
    match r {
        ReadResult::NotFound => forall|i: int| 0 <= i < n ==> (#[trigger] vs[i]).len() == 0,
        ReadResult::Found(e) => exists|i: int| #[trigger] winner(vs, n, i) && !vs[i].last().deleted && e.ts() == vs[i].last().ts,
        ReadResult::Deleted(t) => exists|i: int| #[trigger] winner(vs, n, i) && vs[i].last().deleted && t.0 == vs[i].last().ts,
    }
}
pub open spec fn answers_all(vs: Seq<Seq<Ver>>, items: Seq<Result<ReadResult<Entry>, VErr>>) -> bool {
    vs.len() == items.len()
    && forall|i: int| 0 <= i < items.len() ==> (#[trigger] items[i]) is Ok && blob_answer(vs[i], items[i]->Ok_0) && ver_sorted(vs[i])
}
// one fold step keeps "acc is the top-ranked answer of the first n blobs"
pub proof fn lemma_latest_step(vs: Seq<Seq<Ver>>, n: int, acc: ReadResult<Entry>, a: ReadResult<Entry>)
    requires 0 <= n < vs.len(), top_ranked(vs, n, acc), blob_answer(vs[n], a), ver_sorted(vs[n]),
    ensures top_ranked(vs, n + 1, latest_of(acc, a)),
{
    let r = latest_of(acc, a);
    let v = vs[n];
    if v.len() == 0 {
        // blob n contributes nothing
        assert(r == acc);
        match acc {
            ReadResult::NotFound => { }
            ReadResult::Found(e) => {
                let i = choose|i: int| #[trigger] winner(vs, n, i) && !vs[i].last().deleted && e.ts() == vs[i].last().ts;
                assert(winner(vs, n + 1, i));
            }
            ReadResult::Deleted(t) => {
                let i = choose|i: int| #[trigger] winner(vs, n, i) && vs[i].last().deleted && t.0 == vs[i].last().ts;
                assert(winner(vs, n + 1, i));
            }
        }
    } else {
        let lt = v.last().ts;
        assert(rre_ts(a) == Some(BlobRecordTimestamp(lt)));
        assert forall|p: int| 0 <= p < v.len() implies (#[trigger] v[p]).ts <= lt by { }
        match acc {
            ReadResult::NotFound => {
                assert(r == a);
                assert(winner(vs, n + 1, n));
            }
            ReadResult::Found(e) => {
                let i = choose|i: int| #[trigger] winner(vs, n, i) && !vs[i].last().deleted && e.ts() == vs[i].last().ts;
                if lt > e.ts() { assert(r == a); assert(winner(vs, n + 1, n)); }
                else { assert(r == acc); assert(winner(vs, n + 1, i)); }
            }
            ReadResult::Deleted(t) => {
                let i = choose|i: int| #[trigger] winner(vs, n, i) && vs[i].last().deleted && t.0 == vs[i].last().ts;
                if lt > t.0 { assert(r == a); assert(winner(vs, n + 1, n)); }
                else { assert(r == acc); assert(winner(vs, n + 1, i)); }
            }
        }
    }
}
// C01: the fold of `latest` over the per-blob answers, visited newest blob first, is the answer
// for the record ranked first among all versions in all visited blobs
pub proof fn lemma_fold_is_top_ranked(vs: Seq<Seq<Ver>>, n: int, acc: ReadResult<Entry>, items: Seq<Result<ReadResult<Entry>, VErr>>)
    requires 0 <= n <= vs.len(), top_ranked(vs, n, acc), answers_all(vs.subrange(n, vs.len() as int), items),
    ensures top_ranked(vs, vs.len() as int, fold_latest(acc, items)),
    decreases items.len()
{
    let rest = vs.subrange(n, vs.len() as int);
    if items.len() == 0 {
        assert(n == vs.len());
    } else {
        assert(rest[0] == vs[n]);
        lemma_latest_step(vs, n, acc, items[0]->Ok_0);
        let items2 = items.drop_first();
        let rest2 = vs.subrange(n + 1, vs.len() as int);
        assert forall|i: int| 0 <= i < items2.len() implies (#[trigger] items2[i]) is Ok && blob_answer(rest2[i], items2[i]->Ok_0) && ver_sorted(rest2[i]) by {
            assert(items2[i] == items[i + 1]);
            assert(rest2[i] == rest[i + 1]);
        }
        lemma_fold_is_top_ranked(vs, n + 1, latest_of(acc, items[0]->Ok_0), items2);
    }
}
