// Trusted prelude for the blob-level units: record serialisation objects (verified in unit
// `record`) as opaque values with the facts the blob code relies on.

pub uninterp spec fn blob_header_bytes(h: BlobHeader) -> Seq<u8>;
impl BlobHeader {
    #[verifier::external_body]
    pub fn serialized_size(&self) -> (r: u64) ensures r == blob_header_bytes(*self).len(), r <= 64 { unimplemented!() }
}
// bincode::serialize_into((&mut buf).writer(), &self.header)
#[verifier::external_body]
pub fn ser_blob_header_into(buf: &mut BytesMut, h: &BlobHeader) -> (r: Result<(), VErr>)
    ensures r.is_ok() ==> final(buf)@ == old(buf)@ + blob_header_bytes(*h), r.is_err() ==> !is_refusal(r->Err_0),
{ unimplemented!() }

#[verifier::external_body]
pub struct Meta { _p: u8 }

// serialized length of a record built from these parts (header + meta + data)
pub uninterp spec fn rec_len(key: Seq<u8>, data: Seq<u8>, meta: Option<Meta>) -> int;
// record::Record as the blob code sees it
#[verifier::external_body]
pub struct Record { _p: u8 }
impl Record {
    pub uninterp spec fn hdr(&self) -> RecordHeader;
    pub uninterp spec fn total_len(&self) -> int;
    // Record::to_partially_serialized_and_header (verified in unit `record`)
    #[verifier::external_body]
    pub fn to_partially_serialized_and_header(self) -> (r: Result<(PartiallySerializedRecord, RecordHeader), VErr>)
        ensures r.is_ok() ==> r->Ok_0.1 == self.hdr() && r->Ok_0.0.len_spec() == self.total_len() && r->Ok_0.0.hdr() == self.hdr(),
    { unimplemented!() }
    // Record::create (verified in unit `record`): a live record for this key and timestamp
    #[verifier::external_body]
    pub fn create(key: &KeyT, timestamp: u64, data: Bytes, meta: Option<Meta>) -> (r: Result<Record, VErr>)
        ensures r.is_ok() ==> !hdr_deleted(r->Ok_0.hdr()) && r->Ok_0.hdr().timestamp == timestamp
            && r->Ok_0.hdr().key@ == key@ && r->Ok_0.hdr().data_size == data@.len()
            && r->Ok_0.total_len() == rec_len(key@, data@, meta) && rec_len(key@, data@, meta) >= 0,
    { unimplemented!() }
    // Record::deleted (Record::create + Header::mark_as_deleted, verified in unit `record`)
    #[verifier::external_body]
    pub fn deleted(key: &KeyT, timestamp: u64, meta: Option<Meta>) -> (r: Result<Record, VErr>)
        ensures r.is_ok() ==> hdr_deleted(r->Ok_0.hdr()) && r->Ok_0.hdr().timestamp == timestamp
            && r->Ok_0.hdr().data_size == 0 && r->Ok_0.hdr().key@ == key@ && 0 <= r->Ok_0.total_len() < 0x1_0000_0000,
    { unimplemented!() }
}

#[verifier::external_body]
pub struct PartiallySerializedRecord { _p: u8 }
pub struct PartiallySerializedWriteResult { pub blob_offset: u64, pub header_checksum: u32 }
impl PartiallySerializedWriteResult {
    pub fn blob_offset(&self) -> (r: u64) ensures r == self.blob_offset { self.blob_offset }
    pub fn header_checksum(&self) -> (r: u32) ensures r == self.header_checksum { self.header_checksum }
}
impl PartiallySerializedRecord {
    pub uninterp spec fn hdr(&self) -> RecordHeader;
    pub uninterp spec fn len_spec(&self) -> int;
    // the bytes that end up in the file for a given offset (header patched with offset+checksum)
    pub uninterp spec fn bytes_at(&self, offset: int) -> Seq<u8>;
    // PartiallySerializedRecord::write_to_file -> File::write_append_writable_data (unit `file_io`):
    // reserves [size, size+len), writes the record there; may fail
    #[verifier::external_body]
    pub fn write_to_file(self, file: &mut File) -> (r: Result<PartiallySerializedWriteResult, VErr>)
        requires old(file).wf(), old(file).size_spec() + self.len_spec() <= u64::MAX, self.len_spec() >= 0
        ensures
            final(file).wf(),
            final(file).size_spec() == old(file).size_spec() + self.len_spec(),
            final(file).synced() == old(file).synced(),
            r.is_ok() ==> r->Ok_0.blob_offset as int == old(file).size_spec()
                && final(file).trace() == old(file).trace().push(IoEvent::Append(self.bytes_at(old(file).size_spec()))),
            r.is_err() ==> final(file).trace() == old(file).trace(),
    { unimplemented!() }
}
impl RecordHeader {
    // Header::set_offset_checksum (verified in unit `record`): only the two patched fields change
    #[verifier::external_body]
    pub fn set_offset_checksum(&mut self, blob_offset: u64, header_checksum: u32)
        ensures
            final(self).blob_offset == blob_offset, final(self).header_checksum == header_checksum,
            final(self).timestamp == old(self).timestamp, final(self).flags == old(self).flags,
            final(self).key == old(self).key, final(self).data_size == old(self).data_size,
            final(self).meta_size == old(self).meta_size, final(self).data_checksum == old(self).data_checksum,
            final(self).magic_byte == old(self).magic_byte,
    { unimplemented!() }
}

// ---- index regeneration / blob open ----
pub type IOErrorKind = IoKind;
pub struct IoErrS { pub kind: IoKind }
impl IoErrS { pub fn kind(&self) -> (r: IoKind) ensures r == self.kind { self.kind } }
impl Clone for IoKind { fn clone(&self) -> (r: Self) ensures r == *self { match self { IoKind::NotFound => IoKind::NotFound, IoKind::PermissionDenied => IoKind::PermissionDenied, IoKind::UnexpectedEof => IoKind::UnexpectedEof, IoKind::Other => IoKind::Other, IoKind::Misc => IoKind::Misc } } }
impl Copy for IoKind {}
impl VErr {
    // anyhow::Error::downcast_ref::<std::io::Error>()
    pub fn as_io(&self) -> (r: Option<IoErrS>)
        ensures r == (match self.class { ErrClass::Io(k) => Some(IoErrS { kind: k }), _ => None::<IoErrS> })
    { match self.class { ErrClass::Io(k) => Some(IoErrS { kind: k }), _ => None } }
}
// RawRecords (verified in unit raw_scan): the scan of the blob file
#[verifier::external_body]
pub struct RawRecordsS { _p: u8 }
impl RawRecordsS {
    #[verifier::external_body]
    pub fn load(self) -> (r: Result<Option<Vec<RecordHeader>>, VErr>)
        ensures r.is_ok() && r->Ok_0 is Some ==> r->Ok_0->Some_0@.len() > 0 && scan_of(self.src()) == r->Ok_0->Some_0@,
            r.is_ok() && r->Ok_0 is None ==> scan_of(self.src()) == Seq::<RecordHeader>::empty()
    { unimplemented!() }
}
// header.key().into()
#[verifier::external_body]
pub fn key_from_header(h: &RecordHeader) -> (r: KeyT) ensures r@ == h.key@ { unimplemented!() }

// ---- metadata lookup (C02) ----
impl Meta { pub uninterp spec fn mv(&self) -> MetaV; }
impl Entry {
    pub uninterp spec fn hdr(&self) -> RecordHeader;
    // `Some(meta) == entry.load_meta().await?`: reads the stored metadata of the entry (may fail)
    #[verifier::external_body]
    pub fn load_meta_matches(&mut self, meta: &Meta) -> (r: Result<bool, VErr>)
        ensures final(self).hdr() == old(self).hdr(), final(self).stored_meta() == old(self).stored_meta(),
            r.is_ok() ==> r->Ok_0 == (old(self).stored_meta() == Some(meta.mv()))
    { unimplemented!() }
}
// Blob::headers_to_entries: one Entry per header, same order
#[verifier::external_body]
pub fn headers_to_entries(headers: Vec<RecordHeader>, file: &File, name: &BlobFileName) -> (r: Vec<Entry>)
    ensures r@.len() == headers@.len(), forall|i: int| 0 <= i < r@.len() ==> (#[trigger] r@[i]).hdr() == headers@[i]
        && r@[i].stored_meta() == hdr_meta(*file, headers@[i])
{ unimplemented!() }
// the metadata stored in the blob file for the record with this header (None: unreadable)
pub uninterp spec fn hdr_meta(f: File, h: RecordHeader) -> Option<MetaV>;
// Vec<Entry> by-value iteration element
#[verifier::external_body]
pub fn take_entry(v: &Vec<Entry>, i: usize) -> (r: Entry)
    requires i < v@.len()
    ensures r == v@[i as int]
{ unimplemented!() }
