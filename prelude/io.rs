// Trusted prelude: ghost model of io::File (src/io/unix/sync.rs) and of the byte containers.
// ASSUMED OS model: pwrite writes exactly the given range; fsync makes everything written before
// it durable; every operation may fail (nondeterministic Ok/Err), see DESIGN §1.4 and §3.

pub enum IoEvent { Append(Seq<u8>), WriteAt(int, Seq<u8>), Sync }

#[verifier::external_body]
pub struct Bytes { _p: u8 }
impl Bytes { pub uninterp spec fn view(&self) -> Seq<u8>; }
#[verifier::external_body]
pub struct BytesMut { _p: u8 }
impl BytesMut {
    pub uninterp spec fn view(&self) -> Seq<u8>;
    // Deref<Target = [u8]>
    #[verifier::external_body]
    pub fn as_slice(&self) -> (r: &[u8]) ensures r@ == self@ { unimplemented!() }
    #[verifier::external_body]
    pub fn with_capacity(n: usize) -> (r: BytesMut) ensures r@ == Seq::<u8>::empty() { unimplemented!() }
    #[verifier::external_body]
    pub fn freeze(self) -> (r: Bytes) ensures r@ == self@ { unimplemented!() }
    #[verifier::external_body]
    pub fn len(&self) -> (r: usize) ensures r == self@.len() { unimplemented!() }
}

#[verifier::external_body]
pub struct File { _p: u8 }
impl File {
    // `size` counter of FileInner (reserved length, advanced before the write is issued)
    pub uninterp spec fn size_spec(&self) -> int;
    // `synced_size` counter
    pub uninterp spec fn synced(&self) -> int;
    // successful write / sync operations issued on this file, in order
    pub uninterp spec fn trace(&self) -> Seq<IoEvent>;
    pub open spec fn wf(&self) -> bool { 0 <= self.synced() <= self.size_spec() <= u64::MAX }

    #[verifier::external_body]
    pub fn size(&self) -> (r: u64) requires self.wf() ensures r as int == self.size_spec() { unimplemented!() }
    #[verifier::external_body]
    pub fn dirty_bytes(&self) -> (r: u64) requires self.wf() ensures r as int == self.size_spec() - self.synced() { unimplemented!() }

    // R7: interior mutability (atomics + fd) lowered to &mut self
    #[verifier::external_body]
    pub fn write_append_all(&mut self, buf: Bytes) -> (r: Result<(), VErr>)
        requires old(self).wf(), old(self).size_spec() + buf@.len() <= u64::MAX
        ensures
            final(self).wf(),
            final(self).size_spec() == old(self).size_spec() + buf@.len(),
            final(self).synced() == old(self).synced(),
            r.is_ok() ==> final(self).trace() == old(self).trace().push(IoEvent::Append(buf@)),
            r.is_err() ==> final(self).trace() == old(self).trace() && !is_refusal(r->Err_0),
    { unimplemented!() }

    #[verifier::external_body]
    pub fn fsyncdata(&mut self) -> (r: Result<(), VErr>)
        requires old(self).wf()
        ensures
            final(self).wf(),
            final(self).size_spec() == old(self).size_spec(),
            r.is_ok() ==> final(self).synced() == old(self).size_spec()
                && final(self).trace() == old(self).trace().push(IoEvent::Sync),
            r.is_err() ==> final(self).synced() == old(self).synced() && final(self).trace() == old(self).trace() && !is_refusal(r->Err_0),
    { unimplemented!() }
}

// ADVERSARIAL reads: the disk may return any bytes of the requested length (bit rot, torn
// writes, truncation show up as arbitrary content or as an error) — contracts that hold for this
// stub hold for every file content.
impl File {
    #[verifier::external_body]
    pub fn read_exact_at_allocate(&self, size: usize, offset: u64) -> (r: Result<BytesMut, VErr>)
        ensures r.is_ok() ==> r->Ok_0@.len() == size
    { unimplemented!() }
}
impl Bytes {
    // bytes::Bytes::split_off
    #[verifier::external_body]
    pub fn split_off(&mut self, at: usize) -> (r: Bytes)
        requires at <= old(self)@.len()
        ensures final(self)@ == old(self)@.subrange(0, at as int), r@ == old(self)@.subrange(at as int, old(self)@.len() as int)
    { unimplemented!() }
}

impl File {
    // File::write_all_at (pwrite at an absolute offset inside the already reserved range)
    #[verifier::external_body]
    pub fn write_all_at(&mut self, offset: u64, buf: Bytes) -> (r: Result<(), VErr>)
        requires old(self).wf(), offset + buf@.len() <= old(self).size_spec()
        ensures
            final(self).wf(), final(self).size_spec() == old(self).size_spec(), final(self).synced() == old(self).synced(),
            r.is_ok() ==> final(self).trace() == old(self).trace().push(IoEvent::WriteAt(offset as int, buf@)),
            r.is_err() ==> final(self).trace() == old(self).trace(),
    { unimplemented!() }
}
// IoDriver::create: a new empty file
#[verifier::external_body]
pub fn iodriver_create() -> (r: Result<File, VErr>)
    ensures r.is_ok() ==> r->Ok_0.wf() && r->Ok_0.size_spec() == 0 && r->Ok_0.synced() == 0 && r->Ok_0.trace() == Seq::<IoEvent>::empty(),
        r.is_err() ==> !is_refusal(r->Err_0)
{ unimplemented!() }
