// Trusted prelude for the bloom filter unit.
// ahash::AHasher: a deterministic function of (hasher keys, bytes written). ASSUMED: cloning a
// hasher and feeding the same bytes gives the same `finish()` (pinned by the existing
// compatibility vector test only).
#[verifier::external_body]
pub struct AHasher { _p: u8 }
pub uninterp spec fn hash_fn(id: int, bytes: Seq<u8>) -> u64;
impl AHasher {
    pub uninterp spec fn id(&self) -> int;
    pub uninterp spec fn fed(&self) -> Seq<u8>;
    #[verifier::external_body]
    pub fn clone_h(&self) -> (r: AHasher) ensures r.id() == self.id(), r.fed() == self.fed() { unimplemented!() }
    #[verifier::external_body]
    pub fn write(&mut self, bytes: &KeyT) ensures final(self).id() == old(self).id(), final(self).fed() == old(self).fed() + bytes@ { unimplemented!() }
    #[verifier::external_body]
    pub fn finish(&self) -> (r: u64) ensures r == hash_fn(self.id(), self.fed()) { unimplemented!() }
}
// the hasher array of a Bloom: hasher j is created with keys (j+1, j+2) and has been fed nothing
pub open spec fn hashers_fresh(h: Seq<AHasher>) -> bool {
    forall|j: int| 0 <= j < h.len() ==> (#[trigger] h[j]).id() == j && h[j].fed() == Seq::<u8>::empty()
}
#[verifier::external_body]
pub struct BloomConfigArc { _p: u8 }

// Vec<AHasher>::clone
#[verifier::external_body]
pub fn clone_hashers(h: &Vec<AHasher>) -> (r: Vec<AHasher>)
    ensures r@.len() == h@.len(), forall|j: int| 0 <= j < h@.len() ==> (#[trigger] r@[j]).id() == h@[j].id() && r@[j].fed() == h@[j].fed()
{ unimplemented!() }

// byte k (0..8) of the little-endian encoding of a u64 word (bincode writes Vec<u64> as LE words)
pub open spec fn le_byte(w: u64, k: int) -> u8 { ((w >> ((8 * k) as u64)) & 0xffu64) as u8 }

// BloomDataProvider: the index file that holds the serialized filter
#[verifier::external_body]
pub struct Provider { _p: u8 }
impl Provider {
    pub uninterp spec fn byte_at(&self, index: u64) -> u8;
    #[verifier::external_body]
    pub fn read_byte(&self, index: u64) -> (r: Result<u8, VErr>) ensures r.is_ok() ==> r->Ok_0 == self.byte_at(index) { unimplemented!() }
    // the file holds, from `start`, the words of `data` in little-endian byte order
    pub open spec fn holds(&self, start: u64, data: Seq<u64>) -> bool {
        forall|b: int| 0 <= b < data.len() * 8 ==> #[trigger] self.byte_at((start + b) as u64) == le_byte(data[b / 8], b % 8)
    }
}
