// Trusted prelude for the in-memory index units. ASSUMED contracts on std::collections::BTreeMap,
// slice::binary_search_by, Vec capacity, Clone, and the filter / file-index objects that the
// extracted functions call but that are verified in other units.

// R10: the key type K is opaque; only its byte view is visible to specifications.
#[verifier::external_body]
pub struct KeyT { _p: u8 }
impl KeyT {
    pub uninterp spec fn view(&self) -> Seq<u8>;
    #[verifier::external_body]
    pub fn clone(&self) -> (r: KeyT) ensures r@ == self@ { unimplemented!() }
}

pub open spec fn hdr_ts(h: RecordHeader) -> u64 { h.timestamp }
pub open spec fn hdr_deleted(h: RecordHeader) -> bool { h.flags & 1u8 == 1u8 }

impl Clone for RecordHeader {
    #[verifier::external_body]
    fn clone(&self) -> (r: RecordHeader) ensures r == *self { unimplemented!() }
}

pub open spec fn ts_sorted(s: Seq<RecordHeader>) -> bool {
    forall|i: int, j: int| 0 <= i <= j < s.len() ==> hdr_ts(s[i]) <= hdr_ts(s[j])
}

// std: slice::binary_search_by(|item| item.timestamp().cmp(&ts)).unwrap_or_else(|e| e)
// (documented contract of binary_search_by on a slice sorted w.r.t. the comparator: Ok(i) is
// *some* matching index, Err(i) is the insertion point; unwrap_or_else(|e| e) merges the two)
#[verifier::external_body]
pub fn bsearch_ts(v: &Vec<RecordHeader>, ts: u64) -> (r: usize)
    requires ts_sorted(v@)
    ensures r <= v.len(),
        (r < v.len() && hdr_ts(v@[r as int]) == ts)
        || ((forall|i: int| 0 <= i < r ==> hdr_ts(v@[i]) < ts) && (forall|i: int| r <= i < v.len() ==> hdr_ts(v@[i]) > ts)),
{ unimplemented!() }

// Vec capacity is not a function of the view; growth per call is assumed physically bounded.
pub const CAP_DELTA_MAX: usize = 0x1000_0000;
#[verifier::external_body]
pub fn capacity_delta() -> (r: usize) ensures r <= CAP_DELTA_MAX { unimplemented!() }

// BTreeMap<K, Vec<RecordHeader>>
#[verifier::external_body]
pub struct InMemoryIndex { _p: u8 }
impl InMemoryIndex {
    pub uninterp spec fn view(&self) -> Map<Seq<u8>, Seq<RecordHeader>>;

    #[verifier::external_body]
    pub fn get_mut(&mut self, k: &KeyT) -> (r: Option<&mut Vec<RecordHeader>>)
        ensures
            match r {
                Some(v) => old(self)@.contains_key(k@) && (*v)@ == old(self)@[k@]
                           && final(self)@ == old(self)@.insert(k@, (*final(v))@),
                None => !old(self)@.contains_key(k@) && final(self)@ == old(self)@,
            }
    { unimplemented!() }

    #[verifier::external_body]
    pub fn get(&self, k: &KeyT) -> (r: Option<&Vec<RecordHeader>>)
        ensures
            match r {
                Some(v) => self@.contains_key(k@) && v@ == self@[k@],
                None => !self@.contains_key(k@),
            }
    { unimplemented!() }

    #[verifier::external_body]
    pub fn insert(&mut self, k: KeyT, v: Vec<RecordHeader>)
        ensures final(self)@ == old(self)@.insert(k@, v@)
    { unimplemented!() }

    #[verifier::external_body]
    pub fn contains_key(&self, k: &KeyT) -> (r: bool)
        ensures r == self@.contains_key(k@)
    { unimplemented!() }

    #[verifier::external_body]
    pub fn len(&self) -> (r: usize)
    { unimplemented!() }
}

// filter object of the index (verified in units bloom / range_combined); here only its key set
#[verifier::external_body]
pub struct CombinedFilter { _p: u8 }
impl CombinedFilter {
    pub uninterp spec fn keys(&self) -> Set<Seq<u8>>;
    // R7: interior mutability (atomics) lowered to &mut
    #[verifier::external_body]
    pub fn add(&mut self, k: &KeyT)
        ensures final(self).keys() == old(self).keys().insert(k@)
    { unimplemented!() }
}

// the on-disk file index (verified in units bptree_*); here an opaque answer function
#[verifier::external_body]
pub struct FileIndexStub { _p: u8 }
impl FileIndexStub {
    pub uninterp spec fn disk_latest(&self, k: Seq<u8>) -> Option<RecordHeader>;
    pub uninterp spec fn disk_all(&self, k: Seq<u8>) -> Option<Seq<RecordHeader>>;
    pub uninterp spec fn disk_count(&self) -> usize;
    #[verifier::external_body]
    pub fn get_latest(&self, k: &KeyT) -> (r: Result<Option<RecordHeader>, VErr>)
        ensures r.is_ok() ==> r->Ok_0 == self.disk_latest(k@)
    { unimplemented!() }
    #[verifier::external_body]
    pub fn find_by_key(&self, k: &KeyT) -> (r: Result<Option<Vec<RecordHeader>>, VErr>)
        ensures r.is_ok() ==> match r->Ok_0 { Some(v) => self.disk_all(k@) == Some(v@), None => self.disk_all(k@).is_none() }
    { unimplemented!() }
    #[verifier::external_body]
    pub fn records_count(&self) -> (r: usize) ensures r == self.disk_count()
    { unimplemented!() }
}

// Vec<RecordHeader>::clone (elementwise Clone of a plain-data struct)
#[verifier::external_body]
pub fn clone_headers(v: &Vec<RecordHeader>) -> (r: Vec<RecordHeader>) ensures r@ == v@ { unimplemented!() }
// <[T]>::reverse
#[verifier::external_body]
pub fn vec_reverse(v: &mut Vec<RecordHeader>) ensures final(v)@ == old(v)@.reverse() { unimplemented!() }
// Iterator::position(|h| h.is_deleted()) over a slice: first index satisfying the predicate
#[verifier::external_body]
pub fn position_deleted(v: &Vec<RecordHeader>) -> (r: Option<usize>)
    ensures match r {
        Some(i) => i < v.len() && hdr_deleted(v@[i as int]) && (forall|j: int| 0 <= j < i ==> !hdr_deleted(v@[j])),
        None => forall|j: int| 0 <= j < v.len() ==> !hdr_deleted(v@[j]),
    }
{ unimplemented!() }
