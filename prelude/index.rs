// Trusted prelude for the in-memory index units. ASSUMED contracts on std::collections::BTreeMap,
// slice::binary_search_by, Vec capacity, Clone, and the filter / file-index objects that the
// extracted functions call but that are verified in other units.

pub open spec fn hdr_ts(h: RecordHeader) -> u64 { h.timestamp }
pub open spec fn hdr_deleted(h: RecordHeader) -> bool { h.flags & 1u8 == 1u8 }

impl Clone for RecordHeader {
    #[verifier::external_body]
    fn clone(&self) -> (r: RecordHeader) ensures r == *self { unimplemented!() }
}

pub open spec fn ts_sorted(s: Seq<RecordHeader>) -> bool {
    forall|i: int, j: int| 0 <= i <= j < s.len() ==> hdr_ts(s[i]) <= hdr_ts(s[j])
}

// representation invariant of the in-memory index: every key has versions, ascending by timestamp
pub open spec fn index_wf(m: Map<Seq<u8>, Seq<RecordHeader>>) -> bool {
    forall|k: Seq<u8>| #[trigger] m.contains_key(k) ==> m[k].len() > 0 && ts_sorted(m[k])
}

// std: slice::binary_search_by(|item| item.timestamp().cmp(&ts)).unwrap_or_else(|e| e)
// (documented contract of binary_search_by on a slice sorted w.r.t. the comparator: Ok(i) is
// *some* matching index, Err(i) is the insertion point; unwrap_or_else(|e| e) merges the two)
#[verifier::external_body]
pub fn bsearch_ts(v: &Vec<RecordHeader>, ts: u64) -> (r: usize)
    requires ts_sorted(v@)
    ensures r <= v.len(),
        (r < v.len() && hdr_ts(v@[r as int]) == ts)
        || ((forall|i: int| 0 <= i < r ==> hdr_ts(v@[i]) < ts) && (forall|i: int| r <= i < v.len() ==> hdr_ts(v@[i]) > ts)),
{ unimplemented!() }

// Vec capacity is not a function of the view; growth per call is assumed physically bounded.
pub const CAP_DELTA_MAX: usize = 0x1000_0000;
#[verifier::external_body]
pub fn capacity_delta() -> (r: usize) ensures r <= CAP_DELTA_MAX { unimplemented!() }

// BTreeMap<K, Vec<RecordHeader>>
#[verifier::external_body]
pub struct InMemoryIndex { _p: u8 }
impl InMemoryIndex {
    pub uninterp spec fn view(&self) -> Map<Seq<u8>, Seq<RecordHeader>>;

    #[verifier::external_body]
    pub fn get_mut(&mut self, k: &KeyT) -> (r: Option<&mut Vec<RecordHeader>>)
        ensures
            match r {
                Some(v) => old(self)@.contains_key(k@) && (*v)@ == old(self)@[k@]
                           && final(self)@ == old(self)@.insert(k@, (*final(v))@),
                None => !old(self)@.contains_key(k@) && final(self)@ == old(self)@,
            }
    { unimplemented!() }

    #[verifier::external_body]
    pub fn get(&self, k: &KeyT) -> (r: Option<&Vec<RecordHeader>>)
        ensures
            match r {
                Some(v) => self@.contains_key(k@) && v@ == self@[k@],
                None => !self@.contains_key(k@),
            }
    { unimplemented!() }

    #[verifier::external_body]
    pub fn insert(&mut self, k: KeyT, v: Vec<RecordHeader>)
        ensures final(self)@ == old(self)@.insert(k@, v@)
    { unimplemented!() }

    #[verifier::external_body]
    pub fn contains_key(&self, k: &KeyT) -> (r: bool)
        ensures r == self@.contains_key(k@)
    { unimplemented!() }

    #[verifier::external_body]
    pub fn len(&self) -> (r: usize)
    { unimplemented!() }
}

// (blob::FileName: prefix + id + extension + dir) - the id, and whether the extension is the INDEX-file
// extension: index files are the only files the library ever truncates / recreates (C07)
pub struct BlobFileName { pub id: usize, pub is_index: bool }
impl BlobFileName {
    #[verifier::external_body]
    pub fn clone(&self) -> (r: BlobFileName) ensures r == *self { unimplemented!() }
    pub fn id(&self) -> (r: usize) ensures r == self.id { self.id }
}

// filter object of the index (verified in units bloom / range_combined); here only its key set
#[verifier::external_body]
pub struct CombinedFilter { _p: u8 }
impl CombinedFilter {
    pub uninterp spec fn keys(&self) -> Set<Seq<u8>>;
    // R7: interior mutability (atomics) lowered to &mut
    #[verifier::external_body]
    pub fn add(&mut self, k: &KeyT)
        ensures final(self).keys() == old(self).keys().insert(k@)
    { unimplemented!() }
}
// the key set covered by the filters serialised into an index-file meta buffer (bincode of Bloom
// and RangeFilter: TRUSTED round trip), and by a (bloom, range) pair
pub uninterp spec fn ser_keys(buf: Seq<u8>) -> Set<Seq<u8>>;
pub uninterp spec fn combined_keys(b: Option<Bloom>, r: RangeFilter) -> Set<Seq<u8>>;

// the on-disk file index (verified in units bptree_*); here an opaque answer function
#[verifier::external_body]
pub struct FileIndexStub { _p: u8 }
impl FileIndexStub {
    pub uninterp spec fn disk_latest(&self, k: Seq<u8>) -> Option<RecordHeader>;
    pub uninterp spec fn disk_all(&self, k: Seq<u8>) -> Option<Seq<RecordHeader>>;
    pub uninterp spec fn disk_count(&self) -> usize;
    // the meta block (serialised filters) stored in the index file
    pub uninterp spec fn meta_bytes(&self) -> Seq<u8>;
    #[verifier::external_body]
    pub fn get_latest(&self, k: &KeyT) -> (r: Result<Option<RecordHeader>, VErr>)
        ensures r.is_ok() ==> r->Ok_0 == self.disk_latest(k@)
    { unimplemented!() }
    #[verifier::external_body]
    pub fn find_by_key(&self, k: &KeyT) -> (r: Result<Option<Vec<RecordHeader>>, VErr>)
        ensures r.is_ok() ==> match r->Ok_0 { Some(v) => self.disk_all(k@) == Some(v@), None => self.disk_all(k@).is_none() }
    { unimplemented!() }
    #[verifier::external_body]
    pub fn records_count(&self) -> (r: usize) ensures r == self.disk_count()
    { unimplemented!() }
}

// Vec<RecordHeader>::clone (elementwise Clone of a plain-data struct)
#[verifier::external_body]
pub fn clone_headers(v: &Vec<RecordHeader>) -> (r: Vec<RecordHeader>) ensures r@ == v@ { unimplemented!() }
// <[T]>::reverse
#[verifier::external_body]
pub fn vec_reverse(v: &mut Vec<RecordHeader>) ensures final(v)@ == old(v)@.reverse() { unimplemented!() }
// Iterator::position(|h| h.is_deleted()) over a slice: first index satisfying the predicate
#[verifier::external_body]
pub fn position_deleted(v: &Vec<RecordHeader>) -> (r: Option<usize>)
    ensures match r {
        Some(i) => i < v.len() && hdr_deleted(v@[i as int]) && (forall|j: int| 0 <= j < i ==> !hdr_deleted(v@[j])),
        None => forall|j: int| 0 <= j < v.len() ==> !hdr_deleted(v@[j]),
    }
{ unimplemented!() }

// `iter().rposition(p)`: the LAST index whose element satisfies p
#[verifier::external_body]
pub fn rposition_deleted(v: &Vec<RecordHeader>) -> (r: Option<usize>)
    ensures match r {
        Some(i) => i < v.len() && hdr_deleted(v@[i as int]) && (forall|j: int| i < j < v.len() ==> !hdr_deleted(v@[j])),
        None => forall|j: int| 0 <= j < v.len() ==> !hdr_deleted(v@[j]),
    }
{ unimplemented!() }

// ---- record accounting over the whole map (C15) -------------------------------------------
// sum of the lengths of all version vectors. Uninterpreted, characterised by two ASSUMED
// mathematical facts about a fold over a finite map (listed in the trusted base).
pub uninterp spec fn sum_len(m: Map<Seq<u8>, Seq<RecordHeader>>) -> nat;
#[verifier::external_body]
pub proof fn axiom_sum_len_empty()
    ensures sum_len(Map::<Seq<u8>, Seq<RecordHeader>>::empty()) == 0
{ }
#[verifier::external_body]
pub proof fn axiom_sum_len_insert(m: Map<Seq<u8>, Seq<RecordHeader>>, k: Seq<u8>, v: Seq<RecordHeader>)
    ensures sum_len(m.insert(k, v)) == sum_len(m) - (if m.contains_key(k) { m[k].len() } else { 0 }) + v.len()
{ }

impl InMemoryIndex {
    #[verifier::external_body]
    pub fn new() -> (r: InMemoryIndex) ensures r@ == Map::<Seq<u8>, Seq<RecordHeader>>::empty() { unimplemented!() }
    // std: BTreeMap::len() == 0 iff the map is empty
    #[verifier::external_body]
    pub fn is_len_zero(&self) -> (r: bool) ensures r == (self@ =~= Map::<Seq<u8>, Seq<RecordHeader>>::empty()) { unimplemented!() }
}
// `headers.values().fold(0, |acc, v| acc + v.capacity())` — memory statistics only
#[verifier::external_body]
pub fn capacity_total(m: &InMemoryIndex) -> (r: usize) ensures r <= usize::MAX - CAP_DELTA_MAX { unimplemented!() }

impl FileIndexStub {
    // C09 contract of the on-disk index (proved/bounded in units bptree_ser, bptree_read,
    // bptree_roundtrip; ASSUMED here): the file answers exactly like the map it was built from.
    pub open spec fn agrees_with(&self, m: Map<Seq<u8>, Seq<RecordHeader>>) -> bool {
        &&& forall|k: Seq<u8>| #[trigger] self.disk_all(k) == (if m.contains_key(k) { Some(m[k].reverse()) } else { None::<Seq<RecordHeader>> })
        &&& forall|k: Seq<u8>| #[trigger] self.disk_latest(k) == (if m.contains_key(k) && m[k].len() > 0 { Some(m[k].last()) } else { None::<RecordHeader> })
        &&& self.disk_count() as nat == sum_len(m)
    }
    #[verifier::external_body]
    // C07: creates / truncates (clean_file) and rewrites the file at `path`: only ever an INDEX file
    pub fn from_records(path: &BlobFileName, io: (), headers: &InMemoryIndex, meta: Vec<u8>, recreate_index_file: bool, blob_size: u64) -> (r: Result<FileIndexStub, VErr>)
        requires sum_len(headers@) <= usize::MAX, path.is_index
        ensures r.is_ok() ==> r->Ok_0.agrees_with(headers@) && r->Ok_0.meta_bytes() == meta@
    { unimplemented!() }
    #[verifier::external_body]
    pub fn get_records_headers(&self, blob_size: u64) -> (r: Result<(InMemoryIndex, usize), VErr>)
        // the count is the number of headers deserialised from one in-memory buffer, hence far below usize::MAX
        ensures r.is_ok() ==> self.agrees_with(r->Ok_0.0@) && index_wf(r->Ok_0.0@) && r->Ok_0.1 == self.disk_count() && r->Ok_0.1 < usize::MAX
    { unimplemented!() }
    #[verifier::external_body]
    pub fn file_size(&self) -> (r: u64) { unimplemented!() }
    #[verifier::external_body]
    pub fn read_meta(&self) -> (r: Result<BytesMut, VErr>) ensures r.is_ok() ==> r->Ok_0@ == self.meta_bytes() { unimplemented!() }
    // one byte of the meta block
    #[verifier::external_body]
    pub fn read_meta_at(&self, i: u64) -> (r: Result<u8, VErr>)
        ensures r.is_ok() ==> i < self.meta_bytes().len() && r->Ok_0 == self.meta_bytes()[i as int]
    { unimplemented!() }
    #[verifier::external_body]
    pub fn clone(&self) -> (r: FileIndexStub) ensures r == *self { unimplemented!() }
}

#[verifier::external_body]
pub struct Bloom { _p: u8 }
#[verifier::external_body]
pub struct RangeFilter { _p: u8 }
impl RangeFilter {
    // an empty range filter (covers nothing that is asserted anywhere)
    #[verifier::external_body]
    pub fn new() -> (r: RangeFilter) { unimplemented!() }
}
impl CombinedFilter {
    #[verifier::external_body]
    pub fn new(bloom: Option<Bloom>, range: RangeFilter) -> (r: CombinedFilter) ensures r.keys() == combined_keys(bloom, range) { unimplemented!() }
    #[verifier::external_body]
    pub fn clear_filter(&mut self) ensures final(self).keys() == Set::<Seq<u8>>::empty() { unimplemented!() }
    #[verifier::external_body]
    pub fn offload_filter(&mut self) -> (r: usize) ensures final(self).keys() == old(self).keys() { unimplemented!() }
}

// std: slice::partition_point(pred) on a slice partitioned w.r.t. pred: index of the first element
// for which pred is false (documented contract). Two instances by timestamp.
#[verifier::external_body]
pub fn ppoint_ts_lt(v: &Vec<RecordHeader>, ts: u64) -> (r: usize)
    requires ts_sorted(v@)
    ensures r <= v.len(),
        forall|i: int| 0 <= i < r ==> hdr_ts(v@[i]) < ts,
        forall|i: int| r <= i < v.len() ==> hdr_ts(v@[i]) >= ts,
{ unimplemented!() }
#[verifier::external_body]
pub fn ppoint_ts_le(v: &Vec<RecordHeader>, ts: u64) -> (r: usize)
    requires ts_sorted(v@)
    ensures r <= v.len(),
        forall|i: int| 0 <= i < r ==> hdr_ts(v@[i]) <= ts,
        forall|i: int| r <= i < v.len() ==> hdr_ts(v@[i]) > ts,
{ unimplemented!() }

// machine arithmetic of the STATISTICS counters (records_count, records_allocated) treated as
// mathematical: they count objects that exist in memory, so they never approach usize::MAX.
// Used only where a loop pushes many headers (index regeneration).
#[verifier::external_body]
pub proof fn assume_stat_counters_in_range(count: usize, allocated: usize)
    ensures count < usize::MAX, allocated <= usize::MAX - CAP_DELTA_MAX
{ }


// ---- layout of the filters section (meta block) of an index file: [u64 len(range)] [range] [bloom] ----
// bincode (fixed-int, little endian) of a u64 and back
pub uninterp spec fn u64_le(v: u64) -> Seq<u8>;
pub uninterp spec fn u64_of(b: Seq<u8>) -> u64;
#[verifier::external_body]
pub proof fn axiom_u64_le(v: u64) ensures u64_le(v).len() == 8, u64_of(u64_le(v)) == v { }
// where the serialised bloom filter starts inside a meta block
pub open spec fn filters_bloom_offset(meta: Seq<u8>) -> int { 8 + u64_of(meta.subrange(0, 8)) }
// bincode::serialize(&u64)
#[verifier::external_body]
pub fn ser_u64(v: u64) -> (r: Result<Vec<u8>, VErr>) ensures r.is_ok() ==> r->Ok_0@ == u64_le(v) { unimplemented!() }
// bincode::deserialize::<usize>(&buf)
#[verifier::external_body]
pub fn deser_usize(b: &[u8]) -> (r: Result<usize, VErr>) ensures r.is_ok() ==> r->Ok_0 == u64_of(b@) { unimplemented!() }
// <[u8]>::split_at(mid): PANICS if mid > len
#[verifier::external_body]
pub fn slice_split_at(b: &[u8], mid: usize) -> (r: (&[u8], &[u8]))
    requires mid <= b@.len()
    ensures r.0@ == b@.subrange(0, mid as int), r.1@ == b@.subrange(mid as int, b@.len() as int)
{ unimplemented!() }
impl RangeFilter {
    pub uninterp spec fn raw(&self) -> Seq<u8>;   // its bincode image
    pub uninterp spec fn src(&self) -> Seq<u8>;   // the bytes it was decoded from
    // (sizes: buffers that exist in memory; ASSUMED far below usize::MAX)
    #[verifier::external_body]
    pub fn to_raw(&self) -> (r: Result<Vec<u8>, VErr>) ensures r.is_ok() ==> r->Ok_0@ == self.raw() && r->Ok_0@.len() <= 0x1000_0000 { unimplemented!() }
    #[verifier::external_body]
    pub fn from_raw(b: &[u8]) -> (r: Result<RangeFilter, VErr>) ensures r.is_ok() ==> r->Ok_0.src() == b@ { unimplemented!() }
}
impl Bloom {
    pub uninterp spec fn src(&self) -> Seq<u8>;
    #[verifier::external_body]
    pub fn from_raw(b: &[u8]) -> (r: Result<Bloom, VErr>) ensures r.is_ok() ==> r->Ok_0.src() == b@ { unimplemented!() }
}
impl CombinedFilter {
    pub uninterp spec fn range_sp(&self) -> RangeFilter;
    // bincode image of the bloom part (of `Bloom::empty()` when there is none)
    pub uninterp spec fn bloom_raw(&self) -> Seq<u8>;
    #[verifier::external_body]
    pub fn range(&self) -> (r: &RangeFilter) ensures *r == self.range_sp() { unimplemented!() }
}
// `self.filter.bloom().as_ref().unwrap_or(&Bloom::empty()).to_raw()`
#[verifier::external_body]
pub fn bloom_raw_or_empty(f: &CombinedFilter) -> (r: Result<Vec<u8>, VErr>)
    ensures r.is_ok() ==> r->Ok_0@ == f.bloom_raw() && r->Ok_0@.len() <= 0x4000_0000_0000
{ unimplemented!() }
// TRUSTED (bincode round trip of Bloom / RangeFilter), stated over the LAYOUT of the meta block:
// a block laid out as [len][range][bloom] covers every key of the filter it was made from ...
#[verifier::external_body]
pub proof fn axiom_ser_keys(f: CombinedFilter, buf: Seq<u8>)
    requires buf == u64_le(f.range_sp().raw().len() as u64) + f.range_sp().raw() + f.bloom_raw()
    ensures f.keys().subset_of(ser_keys(buf))
{ }
// ... and filters decoded from exactly those two sections of a block cover what the block covers
#[verifier::external_body]
pub proof fn axiom_deser_keys(buf: Seq<u8>, b: Bloom, r: RangeFilter)
    requires 8 <= filters_bloom_offset(buf) <= buf.len(),
        r.src() == buf.subrange(8, filters_bloom_offset(buf)), b.src() == buf.subrange(filters_bloom_offset(buf), buf.len() as int)
    ensures ser_keys(buf).subset_of(combined_keys(Some(b), r)), ser_keys(buf).subset_of(combined_keys(None, r))
{ }
