// Trusted prelude for the ahash fallback unit: the arithmetic of the hash is UNINTERPRETED
// (folded multiply, wrapping add/mul, rotate, byte<->integer conversions); what is proved is the
// BLOCK SCHEDULE of `write`, i.e. which bytes are mixed in, in which order, how many times (C17:
// bloom bits stored by the pinned release are probed at the same positions).
pub uninterp spec fn fm(a: u64, b: u64) -> u64;
#[verifier::external_body]
pub fn folded_multiply(a: u64, b: u64) -> (r: u64) ensures r == fm(a, b) { unimplemented!() }
pub uninterp spec fn wadd(a: u64, b: u64) -> u64;
pub uninterp spec fn wmul(a: u64, b: u64) -> u64;
pub uninterp spec fn rotl(a: u64, r: u32) -> u64;
#[verifier::external_body]
pub fn wrapping_add_u64(a: u64, b: u64) -> (r: u64) ensures r == wadd(a, b) { unimplemented!() }
#[verifier::external_body]
pub fn wrapping_mul_u64(a: u64, b: u64) -> (r: u64) ensures r == wmul(a, b) { unimplemented!() }
#[verifier::external_body]
pub fn rotate_left_u64(a: u64, r: u32) -> (res: u64) ensures res == rotl(a, r) { unimplemented!() }
// Convert: u128 <-> [u64; 2] (transmute, native endian)
pub uninterp spec fn lo64(x: u128) -> u64;
pub uninterp spec fn hi64(x: u128) -> u64;
pub uninterp spec fn join64(a: u64, b: u64) -> u128;
#[verifier::external_body]
pub fn u128_to_u64x2(x: u128) -> (r: [u64; 2]) ensures r@[0] == lo64(x), r@[1] == hi64(x) { unimplemented!() }
#[verifier::external_body]
pub fn u64x2_to_u128(a: u64, b: u64) -> (r: u128) ensures r == join64(a, b) { unimplemented!() }
#[verifier::external_body]
pub fn u64arr_to_u128(v: [u64; 2]) -> (r: u128) ensures r == join64(v@[0], v@[1]) { unimplemented!() }
// ReadFromSlice on [u8]
pub uninterp spec fn blk(d: Seq<u8>, off: int) -> u128;      // 16 bytes at off
pub uninterp spec fn w64(d: Seq<u8>, off: int) -> u64;       // 8 bytes at off
// little-endian value of the bytes of d in [a, b)
pub open spec fn le_val(d: Seq<u8>, a: int, b: int) -> int
    decreases b - a
{
    if b <= a { 0 } else { d[a] as int + 256 * le_val(d, a + 1, b) }
}
// C17 (pinned hash of short keys): `read_small` of <= 8 bytes, as the pinned release computes it:
//   len 4..8: (first 4 bytes LE, last 4 bytes LE);  len 2..3: (first 2 bytes LE, LAST BYTE);
//   len 1: (the byte, the byte);  len 0: (0, 0)
pub open spec fn small(d: Seq<u8>) -> (u64, u64) {
    let n = d.len() as int;
    if n >= 4 { (le_val(d, 0, 4) as u64, le_val(d, n - 4, n) as u64) }
    else if n >= 2 { (le_val(d, 0, 2) as u64, d[n - 1] as u64) }
    else if n >= 1 { (d[0] as u64, d[0] as u64) }
    else { (0u64, 0u64) }
}
// ReadFromSlice::read_u32 / read_last_u32 / read_u16 / read_last_u16 on [u8] (convert.rs: from_le_bytes of the sub-slice)
#[verifier::external_body]
pub fn slice_read_u32(d: &[u8]) -> (r: u32) requires d@.len() >= 4 ensures r as int == le_val(d@, 0, 4) { unimplemented!() }
#[verifier::external_body]
pub fn slice_read_last_u32(d: &[u8]) -> (r: u32) requires d@.len() >= 4 ensures r as int == le_val(d@, d@.len() - 4, d@.len() as int) { unimplemented!() }
#[verifier::external_body]
pub fn slice_read_u16(d: &[u8]) -> (r: u16) requires d@.len() >= 2 ensures r as int == le_val(d@, 0, 2) { unimplemented!() }
#[verifier::external_body]
pub fn slice_read_last_u16(d: &[u8]) -> (r: u16) requires d@.len() >= 2 ensures r as int == le_val(d@, d@.len() - 2, d@.len() as int) { unimplemented!() }
#[verifier::external_body]
pub fn read_last_u128(d: &[u8]) -> (r: u128) requires d@.len() >= 16 ensures r == blk(d@, d@.len() - 16) { unimplemented!() }
#[verifier::external_body]
pub fn read_u128(d: &[u8]) -> (r: (u128, &[u8])) requires d@.len() >= 16 ensures r.0 == blk(d@, 0), r.1@ == d@.subrange(16, d@.len() as int) { unimplemented!() }
#[verifier::external_body]
pub fn read_u64_first(d: &[u8]) -> (r: u64) requires d@.len() >= 8 ensures r == w64(d@, 0) { unimplemented!() }
#[verifier::external_body]
pub fn read_last_u64(d: &[u8]) -> (r: u64) requires d@.len() >= 8 ensures r == w64(d@, d@.len() - 8) { unimplemented!() }
