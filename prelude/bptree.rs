// Trusted prelude for the B+tree serializer units.
// BTreeMap iteration order (std): entries in strictly ascending key order, each key once.
pub uninterp spec fn ents(m: Map<Seq<u8>, Seq<RecordHeader>>) -> Seq<(Seq<u8>, Seq<RecordHeader>)>;
#[verifier::external_body]
pub proof fn axiom_ents(m: Map<Seq<u8>, Seq<RecordHeader>>)
    ensures
        forall|i: int, j: int| 0 <= i < j < ents(m).len() ==> key_lt(#[trigger] ents(m)[i].0, #[trigger] ents(m)[j].0),
        forall|i: int| 0 <= i < ents(m).len() ==> m.contains_key(#[trigger] ents(m)[i].0) && m[ents(m)[i].0] == ents(m)[i].1,
        forall|k: Seq<u8>| m.contains_key(k) ==> exists|i: int| 0 <= i < ents(m).len() && #[trigger] ents(m)[i].0 == k,
{ }
pub open spec fn ents_view(v: Seq<(KeyT, Vec<RecordHeader>)>) -> Seq<(Seq<u8>, Seq<RecordHeader>)> {
    Seq::new(v.len(), |i: int| (v[i].0@, v[i].1@))
}
// `btree.iter()` materialised (R6)
#[verifier::external_body]
pub fn entries_of(m: &InMemoryIndex) -> (r: Vec<(KeyT, Vec<RecordHeader>)>)
    ensures ents_view(r@) == ents(m@)
{ unimplemented!() }
// `btree.keys().next().unwrap()`
#[verifier::external_body]
pub fn first_key(m: &InMemoryIndex) -> (r: &KeyT)
    requires ents(m@).len() > 0
    ensures r@ == ents(m@)[0].0
{ unimplemented!() }
impl KeyT {
    #[verifier::external_body]
    pub fn to_vec(&self) -> (r: Vec<u8>) ensures r@ == self@ { unimplemented!() }
}

// bincode::serialized_size of NodeMeta { size: u64 } is 8 (layout proved on the real bincode by
// the Kani harness check_layout_node_meta, unit layout)
pub struct NodeMeta { pub size: u64 }
impl NodeMeta {
    #[verifier::external_body]
    pub fn serialized_size_default() -> (r: Result<u64, VErr>) ensures r.is_ok() ==> r->Ok_0 == 8 { unimplemented!() }
}
// Vec<u8>::clone
#[verifier::external_body]
pub fn clone_bytes(v: &Vec<u8>) -> (r: Vec<u8>) ensures r@ == v@ { unimplemented!() }
