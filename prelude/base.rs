// Trusted prelude shared by all units (DESIGN §3). Everything here is ASSUMED, not proved.

// the verified target is 64-bit (pearl's on-disk format stores usize as 8 bytes)
global size_of usize == 8;

// R3: errors are lowered to an opaque value that carries only the class a contract may need.
pub enum IoKind { NotFound, PermissionDenied, UnexpectedEof, Other, Misc }
pub enum ErrClass {
    Bincode,
    Validation(ValidationErrorKind),
    Io(IoKind),
    FileUnavailable(IoKind),
    WorkDirUnavailable(IoKind),
    Uninitialized,
    ActiveBlobNotSet,
    ActiveBlobDoesntExist,
    ActiveBlobExists,
    Index,
    Other,
}
pub struct VErr { pub class: ErrClass }
// a request refused because it does not apply in the current state (as opposed to a failed operation)
pub open spec fn is_refusal(e: VErr) -> bool {
    e.class == ErrClass::ActiveBlobExists || e.class == ErrClass::ActiveBlobDoesntExist || e.class == ErrClass::ActiveBlobNotSet
}
impl VErr {
    pub fn validation(kind: ValidationErrorKind) -> (r: VErr)
        ensures r.class == ErrClass::Validation(kind)
    { VErr { class: ErrClass::Validation(kind) } }
    pub fn bincode() -> (r: VErr) ensures r.class == ErrClass::Bincode { VErr { class: ErrClass::Bincode } }
    pub fn other() -> (r: VErr) ensures r.class == ErrClass::Other { VErr { class: ErrClass::Other } }
    pub fn index() -> (r: VErr) ensures r.class == ErrClass::Index { VErr { class: ErrClass::Index } }
}

// R10: the generic key type. `K::LEN` becomes an uninterpreted constant.
pub uninterp spec fn k_len() -> u16;
#[verifier::external_body]
pub fn key_len() -> (r: u16) ensures r == k_len() { unimplemented!() }

// R11: `assert!(c)` is lowered to `if !(c) { vpanic(); }` — proving the call unreachable proves
// that the assertion never fires.
pub fn vpanic() requires false { }

// R10: the key type K is opaque; only its byte view is visible to specifications.
#[verifier::external_body]
pub struct KeyT { _p: u8 }
impl KeyT {
    pub uninterp spec fn view(&self) -> Seq<u8>;
    #[verifier::external_body]
    pub fn clone(&self) -> (r: KeyT) ensures r@ == self@ { unimplemented!() }
}

