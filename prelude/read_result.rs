// derived `PartialOrd for Option<BlobRecordTimestamp>` (std: None < Some(_), Some compared by the
// inner u64). ASSUMED here; validated on the real compiled code by the Kani-complete harness
// kani/read_result.rs::check_latest_ts.
pub open spec fn opt_ts_gt_spec(a: Option<BlobRecordTimestamp>, b: Option<BlobRecordTimestamp>) -> bool {
    match (a, b) {
        (Some(x), Some(y)) => x.0 > y.0,
        (Some(_), None) => true,
        _ => false,
    }
}
#[verifier::external_body]
pub fn opt_ts_gt(a: Option<BlobRecordTimestamp>, b: Option<BlobRecordTimestamp>) -> (r: bool)
    ensures r == opt_ts_gt_spec(a, b)
{ unimplemented!() }

pub open spec fn opt_ts_ge_spec(a: Option<BlobRecordTimestamp>, b: Option<BlobRecordTimestamp>) -> bool {
    match (a, b) {
        (Some(x), Some(y)) => x.0 >= y.0,
        (Some(_), None) => true,
        (None, None) => true,
        _ => false,
    }
}
#[verifier::external_body]
pub fn opt_ts_ge(a: Option<BlobRecordTimestamp>, b: Option<BlobRecordTimestamp>) -> (r: bool)
    ensures r == opt_ts_ge_spec(a, b)
{ unimplemented!() }

// `a > b` / `a >= b` on the value `timestamp()` returns, whatever its shape: `Option<BlobRecordTimestamp>`
// (derived PartialOrd: None < Some(_)) or a bare `BlobRecordTimestamp` (derived: order of the inner u64)
pub trait TsLike: Sized {
    spec fn gt_spec(a: Self, b: Self) -> bool;
    spec fn ge_spec(a: Self, b: Self) -> bool;
}
impl TsLike for Option<BlobRecordTimestamp> {
    open spec fn gt_spec(a: Self, b: Self) -> bool { opt_ts_gt_spec(a, b) }
    open spec fn ge_spec(a: Self, b: Self) -> bool { opt_ts_ge_spec(a, b) }
}
impl TsLike for BlobRecordTimestamp {
    open spec fn gt_spec(a: Self, b: Self) -> bool { a.0 > b.0 }
    open spec fn ge_spec(a: Self, b: Self) -> bool { a.0 >= b.0 }
}
#[verifier::external_body]
pub fn ts_gt<T: TsLike>(a: T, b: T) -> (r: bool) ensures r == T::gt_spec(a, b) { unimplemented!() }
#[verifier::external_body]
pub fn ts_ge<T: TsLike>(a: T, b: T) -> (r: bool) ensures r == T::ge_spec(a, b) { unimplemented!() }

impl Clone for BlobRecordTimestamp { #[verifier::external_body] fn clone(&self) -> (r: Self) ensures r == *self { unimplemented!() } }
impl Copy for BlobRecordTimestamp {}

// blob::entry::Entry — only its header timestamp is visible here (Entry::timestamp is
// `BlobRecordTimestamp::new(self.header.timestamp())`, src/blob/entry.rs)
#[verifier::external_body]
pub struct Entry { _p: u8 }
impl Entry {
    pub uninterp spec fn ts(&self) -> u64;
    #[verifier::external_body]
    pub fn timestamp(&self) -> (r: BlobRecordTimestamp) ensures r.0 == self.ts() { unimplemented!() }
}

impl Entry {
    pub uninterp spec fn deleted(&self) -> bool;
    // the metadata stored on disk for this entry (None: unreadable)
    pub uninterp spec fn stored_meta(&self) -> Option<MetaV>;
    #[verifier::external_body]
    pub fn is_deleted(&self) -> (r: bool) ensures r == self.deleted() { unimplemented!() }
}
// value of a Meta map for comparison purposes
#[verifier::external_body]
pub struct MetaV { _p: u8 }

// FuturesOrdered<...>: yields the results of the per-blob lookups in the order the blobs were
// visited (R1: the futures are awaited one after another)
#[verifier::external_body]
pub struct EntryStream { _p: u8 }
impl EntryStream {
    pub uninterp spec fn rest(&self) -> Seq<Result<ReadResult<Entry>, VErr>>;
    #[verifier::external_body]
    pub fn next(&mut self) -> (r: Option<Result<ReadResult<Entry>, VErr>>)
        ensures
            old(self).rest().len() == 0 ==> r is None && final(self).rest() == old(self).rest(),
            old(self).rest().len() > 0 ==> r == Some(old(self).rest()[0]) && final(self).rest() == old(self).rest().drop_first(),
    { unimplemented!() }
}

// slice::sort_by(|a, b| b.timestamp().cmp(&a.timestamp())) — std: stable sort, here by timestamp descending
pub open spec fn ts_desc(s: Seq<Entry>) -> bool {
    forall|i: int, j: int| 0 <= i <= j < s.len() ==> s[i].ts() >= s[j].ts()
}
// `r` is a stable rearrangement of `s` ordered by timestamp descending: elements of equal
// timestamp keep their relative order (this is what makes "blob recency, then append recency"
// the tie-break of the merged list)
pub uninterp spec fn stable_sorted_desc(s: Seq<Entry>, r: Seq<Entry>) -> bool;
#[verifier::external_body]
pub proof fn axiom_stable_sorted(s: Seq<Entry>, r: Seq<Entry>)
    requires stable_sorted_desc(s, r)
    ensures ts_desc(r), r.len() == s.len(), r.to_multiset() == s.to_multiset()
{ }
#[verifier::external_body]
pub fn sort_entries_ts_desc(v: &mut Vec<Entry>)
    ensures stable_sorted_desc(old(v)@, final(v)@)
{ unimplemented!() }
// slice::sort_unstable_by with the same comparator: sorted and a permutation, but NOT order-preserving among equal timestamps
pub uninterp spec fn unstable_sorted_desc(s: Seq<Entry>, r: Seq<Entry>) -> bool;
#[verifier::external_body]
pub fn sort_entries_ts_desc_unstable(v: &mut Vec<Entry>)
    ensures unstable_sorted_desc(old(v)@, final(v)@), ts_desc(final(v)@), final(v)@.len() == old(v)@.len(), final(v)@.to_multiset() == old(v)@.to_multiset()
{ unimplemented!() }
// Iterator::position(|h| h.is_deleted())
#[verifier::external_body]
pub fn position_deleted_entry(v: &Vec<Entry>) -> (r: Option<usize>)
    ensures match r {
        Some(i) => i < v.len() && v@[i as int].deleted() && (forall|j: int| 0 <= j < i ==> !v@[j].deleted()),
        None => forall|j: int| 0 <= j < v.len() ==> !v@[j].deleted(),
    }
{ unimplemented!() }
