// derived `PartialOrd for Option<BlobRecordTimestamp>` (std: None < Some(_), Some compared by the
// inner u64). ASSUMED here; validated on the real compiled code by the Kani-complete harness
// kani/read_result.rs::check_latest_ts.
pub open spec fn opt_ts_gt_spec(a: Option<BlobRecordTimestamp>, b: Option<BlobRecordTimestamp>) -> bool {
    match (a, b) {
        (Some(x), Some(y)) => x.0 > y.0,
        (Some(_), None) => true,
        _ => false,
    }
}
#[verifier::external_body]
pub fn opt_ts_gt(a: Option<BlobRecordTimestamp>, b: Option<BlobRecordTimestamp>) -> (r: bool)
    ensures r == opt_ts_gt_spec(a, b)
{ unimplemented!() }

pub open spec fn opt_ts_ge_spec(a: Option<BlobRecordTimestamp>, b: Option<BlobRecordTimestamp>) -> bool {
    match (a, b) {
        (Some(x), Some(y)) => x.0 >= y.0,
        (Some(_), None) => true,
        (None, None) => true,
        _ => false,
    }
}
#[verifier::external_body]
pub fn opt_ts_ge(a: Option<BlobRecordTimestamp>, b: Option<BlobRecordTimestamp>) -> (r: bool)
    ensures r == opt_ts_ge_spec(a, b)
{ unimplemented!() }

impl Clone for BlobRecordTimestamp { #[verifier::external_body] fn clone(&self) -> (r: Self) ensures r == *self { unimplemented!() } }
impl Copy for BlobRecordTimestamp {}

// blob::entry::Entry — only its header timestamp is visible here (Entry::timestamp is
// `BlobRecordTimestamp::new(self.header.timestamp())`, src/blob/entry.rs)
#[verifier::external_body]
pub struct Entry { _p: u8 }
impl Entry {
    pub uninterp spec fn ts(&self) -> u64;
    #[verifier::external_body]
    pub fn timestamp(&self) -> (r: BlobRecordTimestamp) ensures r.0 == self.ts() { unimplemented!() }
}
