// Trusted prelude for the record unit.
// crc::Crc<u32>::checksum (CRC32C): an uninterpreted function of the byte string. Its error
// detection strength (all bursts <= 32 bits) is a cited mathematical fact, not proved.
pub uninterp spec fn crc_spec(b: Seq<u8>) -> u32;
#[verifier::external_body]
pub fn crc32c_vec(b: &Vec<u8>) -> (r: u32) ensures r == crc_spec(b@) { unimplemented!() }
#[verifier::external_body]
pub fn crc32c_bytes(b: &Bytes) -> (r: u32) ensures r == crc_spec(b@) { unimplemented!() }
#[verifier::external_body]
pub fn crc32c_bytesmut(b: &BytesMut) -> (r: u32) ensures r == crc_spec(b@) { unimplemented!() }

// bincode::serialize(&header): fixed-width little-endian fields, 8-byte length prefix for the key
// (layout proved on the real bincode by the Kani harness check_layout_record_header, unit layout)
pub uninterp spec fn hdr_bytes(h: RecordHeader) -> Seq<u8>;
pub open spec fn hdr_len(h: RecordHeader) -> int { 57 + h.key@.len() as int }
#[verifier::external_body]
pub proof fn axiom_hdr_bytes_len(h: RecordHeader) ensures hdr_bytes(h).len() == hdr_len(h) { }
#[verifier::external_body]
pub fn ser_header(h: &RecordHeader) -> (r: Result<Vec<u8>, VErr>)
    ensures r.is_ok() ==> r->Ok_0@ == hdr_bytes(*h), r.is_err() ==> r->Err_0.class == ErrClass::Bincode
{ unimplemented!() }

#[verifier::external_body]
pub struct Meta { _p: u8 }
impl Meta {
    pub uninterp spec fn bytes(&self) -> Seq<u8>;
    #[verifier::external_body]
    pub fn unwrap_or_default(m: Option<Meta>) -> (r: Meta) ensures m is Some ==> r == m->Some_0 { unimplemented!() }
}
// bincode::serialized_size(&meta).expect(..) (cannot fail for a map of strings to byte vectors: no size limit is configured): the length of what bincode::serialize_into writes for it (bincode contract)
#[verifier::external_body]
pub fn bincode_meta_size(m: &Meta) -> (r: u64) ensures r == m.bytes().len() { unimplemented!() }
impl Bytes {
    #[verifier::external_body]
    pub fn len(&self) -> (r: usize) ensures r == self@.len() { unimplemented!() }
    #[verifier::external_body]
    pub fn new() -> (r: Bytes) ensures r@ == Seq::<u8>::empty() { unimplemented!() }
}
impl KeyT {
    // key.as_ref().to_vec()
    #[verifier::external_body]
    pub fn as_ref_to_vec(&self) -> (r: Vec<u8>) ensures r@ == self@ { unimplemented!() }
}
impl Meta {
    // Meta::from_raw (bincode::deserialize of the HashMap): may fail on any input
    #[verifier::external_body]
    pub fn from_raw(buf: &Bytes) -> (r: Result<Meta, VErr>) ensures r.is_ok() ==> r->Ok_0.bytes() == buf@ { unimplemented!() }
    #[verifier::external_body]
    pub fn from_raw_mut(buf: &BytesMut) -> (r: Result<Meta, VErr>) ensures r.is_ok() ==> r->Ok_0.bytes() == buf@ { unimplemented!() }
}
impl BytesMut {
    #[verifier::external_body]
    pub fn as_bytes(&self) -> (r: &Bytes) ensures r@ == self@ { unimplemented!() }
}
impl RecordHeader {
    // bincode::serialized_size(&self): 57 fixed bytes + key bytes (layout: Kani check_layout_record_header)
    #[verifier::external_body]
    pub fn serialized_size(&self) -> (r: u64) ensures r == hdr_len(*self) { unimplemented!() }
}
