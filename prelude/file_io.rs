// Trusted prelude for the file layer unit: the OS file as a ghost byte sequence.
// ASSUMED OS model: pwrite (write_all_at) touches only the addressed range; it may fail after
// writing part of it; sync_all makes everything written before it durable.
#[verifier::external_body]
pub struct OsFile { _p: u8 }
impl OsFile {
    pub uninterp spec fn content(&self) -> Seq<u8>;
    pub uninterp spec fn durable_len(&self) -> int;
    // the descriptor was opened with O_APPEND. On Linux pwrite() on such a descriptor IGNORES the offset
    // and appends at the end of the file (pwrite(2), BUGS) - the positional contract below holds only
    // for descriptors opened without it
    pub uninterp spec fn append_mode(&self) -> bool;
    // the open call was allowed to CREATE the file when it did not exist (O_CREAT)
    pub uninterp spec fn may_have_created(&self) -> bool;
    // std::os::unix::fs::FileExt::write_all_at
    #[verifier::external_body]
    pub fn write_all_at(&mut self, buf: &Bytes, offset: u64) -> (r: Result<(), VErr>)
        requires !old(self).append_mode()
        ensures
            final(self).append_mode() == old(self).append_mode(),
            // nothing outside [offset, offset+len) changes, whether the call succeeds or not
            forall|i: int| 0 <= i < old(self).content().len() && !(offset <= i < offset + buf@.len()) ==> #[trigger] final(self).content()[i] == old(self).content()[i],
            final(self).content().len() >= old(self).content().len(),
            final(self).content().len() <= old(self).content().len() || final(self).content().len() <= offset + buf@.len(),
            r.is_ok() ==> final(self).content().len() >= offset + buf@.len()
                && forall|j: int| offset <= j < offset + buf@.len() ==> #[trigger] final(self).content()[j] == buf@[j - offset],
            final(self).durable_len() == old(self).durable_len(),
    { unimplemented!() }
    // std::os::unix::fs::FileExt::write_at: ONE pwrite - it may write only a PREFIX of the buffer and
    // says how many bytes it wrote (write_all_at is the loop around it)
    #[verifier::external_body]
    pub fn write_at(&mut self, buf: &Bytes, offset: u64) -> (r: Result<usize, VErr>)
        requires !old(self).append_mode()
        ensures
            final(self).append_mode() == old(self).append_mode(),
            forall|i: int| 0 <= i < old(self).content().len() && !(offset <= i < offset + buf@.len()) ==> #[trigger] final(self).content()[i] == old(self).content()[i],
            final(self).content().len() >= old(self).content().len(),
            final(self).content().len() <= old(self).content().len() || final(self).content().len() <= offset + buf@.len(),
            r.is_ok() ==> r->Ok_0 <= buf@.len() && final(self).content().len() >= offset + r->Ok_0
                && forall|j: int| offset <= j < offset + r->Ok_0 ==> #[trigger] final(self).content()[j] == buf@[j - offset],
            final(self).durable_len() == old(self).durable_len(),
    { unimplemented!() }
    #[verifier::external_body]
    pub fn sync_all(&mut self) -> (r: Result<(), VErr>)
        ensures final(self).content() == old(self).content(), final(self).append_mode() == old(self).append_mode(),
            r.is_ok() ==> final(self).durable_len() == old(self).content().len(),
            r.is_err() ==> final(self).durable_len() == old(self).durable_len(),
    { unimplemented!() }
}
// R8: AtomicU64::fetch_add / fetch_max, sequentially
pub fn fetch_add_u64(a: &mut u64, v: u64) -> (prev: u64)
    requires *old(a) + v <= u64::MAX
    ensures prev == *old(a), *final(a) == *old(a) + v
{ let p = *a; *a = p + v; p }
pub fn fetch_max_u64(a: &mut u64, v: u64) -> (prev: u64)
    ensures prev == *old(a), *final(a) == (if *old(a) >= v { *old(a) } else { v })
{ let p = *a; if v > p { *a = v; } p }
// R8: AtomicU64::compare_exchange(current, new, ..), sequentially
pub fn cas_u64(a: &mut u64, current: u64, new: u64) -> (r: Result<u64, u64>)
    ensures *old(a) == current ==> r == Ok::<u64, u64>(current) && *final(a) == new,
        *old(a) != current ==> r == Err::<u64, u64>(*old(a)) && *final(a) == *old(a)
{ if *a == current { *a = new; Ok(current) } else { Err(*a) } }
impl Bytes {
    #[verifier::external_body]
    pub fn len(&self) -> (r: usize) ensures r == self@.len() { unimplemented!() }
}
// `impl WritableDataCreator<R>`: produces the bytes of one record once its offset is known
#[verifier::external_body]
pub struct Creator { _p: u8 }
pub struct RetS { pub blob_offset: u64 }
pub open spec fn wd_bytes(w: WritableData) -> Seq<u8> {
    match w { WritableData::Single(b) => b@, WritableData::Double(b1, b2) => b1@ + b2@ }
}
impl Creator {
    pub uninterp spec fn len_spec(&self) -> u64;
    pub uninterp spec fn bytes_at(&self, offset: u64) -> Seq<u8>;
    #[verifier::external_body]
    pub fn len(&self) -> (r: u64) ensures r == self.len_spec() { unimplemented!() }
    // contract of WritableDataCreator::create (proved for PartiallySerializedRecord in unit `record`):
    // the data produced for `offset` has exactly `len()` bytes
    #[verifier::external_body]
    pub fn create(self, offset: u64) -> (r: (WritableData, RetS))
        ensures wd_bytes(r.0) == self.bytes_at(offset), wd_bytes(r.0).len() == self.len_spec(), r.1.blob_offset == offset
    { unimplemented!() }
}

// tokio::fs::OpenOptions as configured by the `setup` closure of File::from_file
// (`truncate`: an existing file is cut to length 0 when it is opened)
pub struct OpenMode { pub create: bool, pub append: bool, pub truncate: bool, pub write: bool, pub read: bool }
// setup(&mut OpenOptions::new()).open(path) + try_into_std(): the descriptor has the configured mode;
// metadata().len() is the current length of the file
#[verifier::external_body]
pub fn os_open(mode: OpenMode) -> (r: Result<OsFile, VErr>)
    ensures r.is_ok() ==> r->Ok_0.append_mode() == mode.append && r->Ok_0.may_have_created() == mode.create && r->Ok_0.durable_len() == r->Ok_0.content().len()
        && (mode.truncate ==> r->Ok_0.content().len() == 0)
{ unimplemented!() }
#[verifier::external_body]
pub fn os_len(f: &OsFile) -> (r: Result<u64, VErr>) ensures r.is_ok() ==> r->Ok_0 == f.content().len() { unimplemented!() }
// flock(LOCK_EX | LOCK_NB) on the descriptor
#[verifier::external_body]
pub fn file_already_locked(f: &OsFile) -> (r: bool) { unimplemented!() }
// a deliberate `panic!` (the blob file is locked by another process): the call does not return
#[verifier::external_body]
pub fn deliberate_panic() -> ! { loop { } }
