// R10: Ord on K / K::Ref is one strict total order on the byte views (true for ArrayKey: both
// compare the byte arrays lexicographically). ASSUMED.
pub uninterp spec fn key_lt(a: Seq<u8>, b: Seq<u8>) -> bool;
#[verifier::external_body]
pub proof fn axiom_key_order(a: Seq<u8>, b: Seq<u8>, c: Seq<u8>)
    ensures
        !(key_lt(a, b) && key_lt(b, a)),
        key_lt(a, b) || key_lt(b, a) || a == b,
        !key_lt(a, a),
        key_lt(a, b) && key_lt(b, c) ==> key_lt(a, c),
{ }


// `Ord for K` as executable comparisons (K: Key => Ord)
#[verifier::external_body]
pub fn key_lt_exec(a: &KeyT, b: &KeyT) -> (r: bool) ensures r == key_lt(a@, b@) { unimplemented!() }
#[verifier::external_body]
pub fn key_le_exec(a: &KeyT, b: &KeyT) -> (r: bool) ensures r == !key_lt(b@, a@) { unimplemented!() }
