// Trusted prelude for the B+tree reader unit: byte buffers as sequences, key comparison on a
// sub-range of a buffer (K::Ref::from(&buf[a..b]) + Ord), bincode of fixed-width integers / headers.
pub enum CmpOrdering { Less, Equal, Greater }

// key.as_ref_key().cmp(&K::Ref::from(&buf[a..b]))      (R10: one total order on key bytes)
#[verifier::external_body]
pub fn cmp_key_slice(key: &KeyT, buf: &[u8], a: usize, b: usize) -> (r: CmpOrdering)
    requires a <= b <= buf@.len()
    ensures
        r is Less <==> key_lt(key@, buf@.subrange(a as int, b as int)),
        r is Greater <==> key_lt(buf@.subrange(a as int, b as int), key@),
        r is Equal <==> key@ == buf@.subrange(a as int, b as int),
{ unimplemented!() }
// key.as_ref_key().cmp(&record_header.key().into())
#[verifier::external_body]
pub fn cmp_key_header(key: &KeyT, h: &RecordHeader) -> (r: CmpOrdering)
    ensures
        r is Less <==> key_lt(key@, h.key@),
        r is Greater <==> key_lt(h.key@, key@),
        r is Equal <==> key@ == h.key@,
{ unimplemented!() }

// bincode of u64 / NodeMeta: 8 little-endian bytes (layout: Kani check_layout_tree_meta)
pub uninterp spec fn u64_at(buf: Seq<u8>, off: int) -> u64;
#[verifier::external_body]
pub fn deser_u64(buf: &[u8], a: usize, b: usize) -> (r: Result<u64, VErr>)
    requires a <= b <= buf@.len()
    ensures r.is_ok() ==> b - a >= 8 && r->Ok_0 == u64_at(buf@, a as int)
{ unimplemented!() }
// the record header serialised at [off, off+rhs) of a buffer
pub uninterp spec fn hdr_at(buf: Seq<u8>, off: int, rhs: int) -> RecordHeader;
#[verifier::external_body]
pub fn deser_header(buf: &[u8], a: usize, b: usize) -> (r: Result<RecordHeader, VErr>)
    requires a <= b <= buf@.len()
    ensures r.is_ok() ==> r->Ok_0 == hdr_at(buf@, a as int, b - a)
{ unimplemented!() }
impl RecordHeader {
    #[verifier::external_body]
    pub fn key_eq(&self, key: &KeyT) -> (r: bool) ensures r == (self.key@ == key@) { unimplemented!() }
}
impl RecordHeader {
    // `rh.key() == key` with key: &[u8]
    #[verifier::external_body]
    pub fn key_is(&self, key: &[u8]) -> (r: bool) ensures r == (self.key@ == key@) { unimplemented!() }
    #[verifier::external_body]
    pub fn same_key(&self, other: &RecordHeader) -> (r: bool) ensures r == (self.key@ == other.key@) { unimplemented!() }
}

// the index file as a ghost byte sequence; a positioned read returns exactly the requested range or fails
#[verifier::external_body]
pub struct IdxFile { _p: u8 }
impl IdxFile {
    pub uninterp spec fn content(&self) -> Seq<u8>;
    // File::read_exact_at(buf, offset) (+ into_bincode_if_unexpected_eof, context)
    #[verifier::external_body]
    pub fn read_exact_at(&self, buf: Vec<u8>, offset: u64) -> (r: Result<Vec<u8>, VErr>)
        ensures r.is_ok() ==> offset + buf@.len() <= self.content().len()
            && r->Ok_0@ == self.content().subrange(offset as int, offset + buf@.len())
    { unimplemented!() }
    #[verifier::external_body]
    pub fn size(&self) -> (r: u64) ensures r == self.content().len() { unimplemented!() }
}
// BytesMut::zeroed(n)
#[verifier::external_body]
pub fn zeroed(n: usize) -> (r: Vec<u8>) ensures r@.len() == n { unimplemented!() }
// deserialisation of a header looks only at its own rhs bytes
#[verifier::external_body]
pub proof fn axiom_hdr_at_local(buf: Seq<u8>, off: int, rhs: int)
    requires 0 <= off, off + rhs <= buf.len(), rhs >= 0
    ensures hdr_at(buf, off, rhs) == hdr_at(buf.subrange(off, off + rhs), 0, rhs)
{ }
// BytesMut::resize(n, 0)
#[verifier::external_body]
pub fn buf_resize(buf: &mut Vec<u8>, n: usize) ensures final(buf)@.len() == n { unimplemented!() }
// Vec<RecordHeader>::reverse (slice::reverse)
#[verifier::external_body]
pub fn hdrs_reverse(v: &mut Vec<RecordHeader>) ensures final(v)@ == old(v)@.reverse() { unimplemented!() }
// Vec::with_capacity(n)
#[verifier::external_body]
pub fn hdrs_with_capacity(n: usize) -> (r: Vec<RecordHeader>) ensures r@.len() == 0 { unimplemented!() }

// ---- raw byte-string comparison (NOT the key order: R10 keeps the key's own total order abstract) ----
impl KeyT {
    // AsRef<[u8]>
    #[verifier::external_body]
    pub fn as_ref(&self) -> (r: &[u8]) ensures r@ == self@ { unimplemented!() }
}
// `&buf[a..b]`
#[verifier::external_body]
pub fn slice_range(buf: &[u8], a: usize, b: usize) -> (r: &[u8])
    requires a <= b <= buf@.len()
    ensures r@ == buf@.subrange(a as int, b as int)
{ unimplemented!() }
// lexicographic order on byte strings (`Ord for [u8]`)
pub uninterp spec fn lex_lt(a: Seq<u8>, b: Seq<u8>) -> bool;
#[verifier::external_body]
pub fn bytes_cmp_lex(a: &[u8], b: &[u8]) -> (r: CmpOrdering)
    ensures r is Less <==> lex_lt(a@, b@), r is Greater <==> lex_lt(b@, a@), r is Equal <==> a@ == b@
{ unimplemented!() }
