// Trusted prelude for unit `api`: the public entry points of Storage are thin wrappers around core
// functions that are verified in unit storage_mut / worker. Here the core functions are RECORDING
// stubs: each call is appended to a ghost log with its arguments, and its result is a function of
// the log. A wrapper is then pinned to "exactly this one call, with exactly these arguments, and
// its result handed back".
#[verifier::external_body]
pub struct Meta { _p: u8 }
#[verifier::external_body]
pub struct ActiveBlobPred { _p: u8 }
pub struct BlobRecordTimestamp(pub u64);
pub enum ReadResult<T> { Found(T), Deleted(BlobRecordTimestamp), NotFound }
#[verifier::external_body]
pub struct Entry { _p: u8 }
impl Entry {
    pub uninterp spec fn deleted(&self) -> bool;
    #[verifier::external_body]
    pub fn is_deleted(&self) -> (r: bool) ensures r == self.deleted() { unimplemented!() }
}
pub enum Call {
    Write(Seq<u8>, Seq<u8>, u64, Option<Meta>),
    Read(Seq<u8>, Option<Meta>),
    ReadAllMarker(Seq<u8>),
    Contains(Seq<u8>, Option<Meta>),
    Delete(Seq<u8>, u64, Option<Meta>, bool),
    InnerClose, InnerCreate, InnerRestore,
    ObsClose, ObsCreate, ObsRestore, ObsTryDump, ObsForceUpdate(ActiveBlobPred),
    InactiveIndexMemory,
}
// results of the recorded calls: functions of the log up to and including the call
pub uninterp spec fn res_unit(log: Seq<Call>) -> Result<(), VErr>;
pub uninterp spec fn res_read(log: Seq<Call>) -> Result<ReadResult<Bytes>, VErr>;
pub uninterp spec fn res_entries(log: Seq<Call>) -> Result<Seq<Entry>, VErr>;
pub uninterp spec fn res_contains(log: Seq<Call>) -> Result<ReadResult<BlobRecordTimestamp>, VErr>;
pub uninterp spec fn res_u64(log: Seq<Call>) -> Result<u64, VErr>;
pub uninterp spec fn res_usize(log: Seq<Call>) -> usize;

// the shared ghost log lives in `inner` (Arc<Inner<K>>, interior mutability: R7) - the observer
// sends its requests to the same log so that the ORDER of calls is visible
#[verifier::external_body]
pub struct InnerApi { _p: u8 }
impl InnerApi {
    pub uninterp spec fn log(&self) -> Seq<Call>;
    #[verifier::external_body]
    pub fn close_active_blob(&mut self) -> (r: Result<(), VErr>)
        ensures final(self).log() == old(self).log().push(Call::InnerClose), r == res_unit(final(self).log()) { unimplemented!() }
    #[verifier::external_body]
    pub fn create_active_blob(&mut self) -> (r: Result<(), VErr>)
        ensures final(self).log() == old(self).log().push(Call::InnerCreate), r == res_unit(final(self).log()) { unimplemented!() }
    #[verifier::external_body]
    pub fn restore_active_blob(&mut self) -> (r: Result<(), VErr>)
        ensures final(self).log() == old(self).log().push(Call::InnerRestore), r == res_unit(final(self).log()) { unimplemented!() }
}
#[verifier::external_body]
pub struct ObserverApi { _p: u8 }
impl ObserverApi {
    #[verifier::external_body]
    pub fn close_active_blob(&self, inner: &mut InnerApi) ensures final(inner).log() == old(inner).log().push(Call::ObsClose) { unimplemented!() }
    #[verifier::external_body]
    pub fn create_active_blob(&self, inner: &mut InnerApi) ensures final(inner).log() == old(inner).log().push(Call::ObsCreate) { unimplemented!() }
    #[verifier::external_body]
    pub fn restore_active_blob(&self, inner: &mut InnerApi) ensures final(inner).log() == old(inner).log().push(Call::ObsRestore) { unimplemented!() }
    #[verifier::external_body]
    pub fn try_dump_old_blob_indexes(&self, inner: &mut InnerApi) ensures final(inner).log() == old(inner).log().push(Call::ObsTryDump) { unimplemented!() }
    #[verifier::external_body]
    pub fn force_update_active_blob(&self, inner: &mut InnerApi, p: ActiveBlobPred) ensures final(inner).log() == old(inner).log().push(Call::ObsForceUpdate(p)) { unimplemented!() }
}
// Vec<Entry>::truncate
#[verifier::external_body]
pub fn entries_truncate(v: &mut Vec<Entry>, n: usize) requires n <= old(v)@.len() ensures final(v)@ == old(v)@.subrange(0, n as int) { unimplemented!() }
