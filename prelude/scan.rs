// Trusted prelude for blob scanning / start-up units.
// anyhow::Error as far as the start-up code inspects it
pub enum AnyErr { Pearl(Error), Io(IoKind), Other }
impl AnyErr {
    // anyhow::Error::downcast_ref::<crate::Error>()
    pub fn downcast_pearl(&self) -> (r: Option<&Error>)
        ensures r == (match self { AnyErr::Pearl(e) => Some(e), _ => None::<&Error> })
    { match self { AnyErr::Pearl(e) => Some(e), _ => None } }
}

// ADVERSARIAL blob file: a read returns arbitrary bytes of the requested length, or fails
// (UnexpectedEof when the range is not inside the file, any other kind at will).
#[verifier::external_body]
pub struct ScanFile { _p: u8 }
impl ScanFile {
    pub uninterp spec fn size_spec(&self) -> u64;
    // the bytes of the file (any sequence of length size_spec: the file is ADVERSARIAL, but a read
    // returns the bytes AT THE OFFSET IT WAS ASKED FOR)
    pub uninterp spec fn content(&self) -> Seq<u8>;
    #[verifier::external_body]
    pub fn size(&self) -> (r: u64) ensures r == self.size_spec() { unimplemented!() }
    // read_exact_at_allocate(n, off).map_err(into_bincode_if_unexpected_eof)
    #[verifier::external_body]
    pub fn read_exact_at_allocate_eof(&self, size: usize, offset: u64) -> (r: Result<BytesMut, AnyErr>)
        ensures
            r.is_ok() ==> r->Ok_0@.len() == size && offset + size <= self.size_spec() && r->Ok_0@ == self.content().subrange(offset as int, offset + size), self.content().len() == self.size_spec(),
            // a short file surfaces as a Bincode-class error (IntoBincodeIfUnexpectedEof, Kani: check_eof_class)
            r.is_err() && offset + size > self.size_spec() ==> r->Err_0 == AnyErr::Pearl(Error { kind: ErrorKind::Bincode(()) }),
            r.is_err() ==> r->Err_0 == AnyErr::Pearl(Error { kind: ErrorKind::Bincode(()) }) || (r->Err_0 is Io && r->Err_0->Io_0 != IoKind::UnexpectedEof),
    { unimplemented!() }
    // the same read WITHOUT the error mapping: a short file surfaces as io::ErrorKind::UnexpectedEof
    #[verifier::external_body]
    pub fn read_exact_at_allocate(&self, size: usize, offset: u64) -> (r: Result<BytesMut, AnyErr>)
        ensures
            r.is_ok() ==> r->Ok_0@.len() == size && offset + size <= self.size_spec() && r->Ok_0@ == self.content().subrange(offset as int, offset + size), self.content().len() == self.size_spec(),
            r.is_err() && offset + size > self.size_spec() ==> r->Err_0 == AnyErr::Io(IoKind::UnexpectedEof),
            r.is_err() ==> r->Err_0 is Io,
    { unimplemented!() }
    #[verifier::external_body]
    pub fn read_exact_at(&self, buf: BytesMut, offset: u64) -> (r: Result<BytesMut, AnyErr>)
        ensures
            r.is_ok() ==> r->Ok_0@.len() == buf@.len() && offset + buf@.len() <= self.size_spec() && r->Ok_0@ == self.content().subrange(offset as int, offset + buf@.len()), self.content().len() == self.size_spec(),
            r.is_err() && offset + buf@.len() > self.size_spec() ==> r->Err_0 == AnyErr::Io(IoKind::UnexpectedEof),
            r.is_err() ==> r->Err_0 is Io,
    { unimplemented!() }
    #[verifier::external_body]
    pub fn read_exact_at_eof(&self, buf: BytesMut, offset: u64) -> (r: Result<BytesMut, AnyErr>)
        ensures
            r.is_ok() ==> r->Ok_0@.len() == buf@.len() && offset + buf@.len() <= self.size_spec() && r->Ok_0@ == self.content().subrange(offset as int, offset + buf@.len()), self.content().len() == self.size_spec(),
            r.is_err() && offset + buf@.len() > self.size_spec() ==> r->Err_0 == AnyErr::Pearl(Error { kind: ErrorKind::Bincode(()) }),
            r.is_err() ==> r->Err_0 == AnyErr::Pearl(Error { kind: ErrorKind::Bincode(()) }) || (r->Err_0 is Io && r->Err_0->Io_0 != IoKind::UnexpectedEof),
    { unimplemented!() }
}
impl BytesMut {
    #[verifier::external_body]
    pub fn resize(&mut self, n: usize, v: u8) ensures final(self)@.len() == n { unimplemented!() }
}

// "a header that passes magic + header CRC was written by the storage": its size fields are the
// real sizes of a record that was in a file, hence small compared to u64::MAX (ASSUMED; CRC32C
// burst detection is a cited mathematical fact)
pub uninterp spec fn hdr_authentic(h: RecordHeader) -> bool;
pub uninterp spec fn data_crc_ok(h: RecordHeader, data: Seq<u8>) -> bool;
#[verifier::external_body]
pub proof fn axiom_authentic_sizes(h: RecordHeader)
    requires hdr_authentic(h)
    ensures h.meta_size < 0x100_0000_0000 && h.data_size < 0x100_0000_0000
{ }
impl RecordHeader {
    // Header::from_raw(&buf).map_err(|e| Error::from(ErrorKind::Bincode(..)))
    #[verifier::external_body]
    pub fn from_raw_bincode(buf: &BytesMut) -> (r: Result<RecordHeader, AnyErr>)
        ensures r.is_err() ==> r->Err_0 == AnyErr::Pearl(Error { kind: ErrorKind::Bincode(()) })
    { unimplemented!() }
    // Header::validate: magic byte, then header CRC (verified in unit `record`)
    #[verifier::external_body]
    pub fn validate(&self) -> (r: Result<(), AnyErr>)
        ensures r.is_ok() ==> hdr_authentic(*self),
            r.is_err() ==> (r->Err_0 matches AnyErr::Pearl(Error { kind: ErrorKind::Validation { kind: k, cause: _ } })
                && (k is RecordMagicByte || k is RecordHeaderChecksum))
    { unimplemented!() }
    // Header::data_checksum_audit (verified in unit `record`)
    #[verifier::external_body]
    pub fn data_checksum_audit(&self, data: &BytesMut) -> (r: Result<(), AnyErr>)
        ensures r.is_ok() <==> data_crc_ok(*self, data@),
            r.is_err() ==> (r->Err_0 matches AnyErr::Pearl(Error { kind: ErrorKind::Validation { kind: k, cause: _ } })
                && k is RecordDataChecksum)
    { unimplemented!() }
    #[verifier::external_body]
    pub fn meta_size(&self) -> (r: u64) ensures r == self.meta_size { unimplemented!() }
    #[verifier::external_body]
    pub fn data_size(&self) -> (r: u64) ensures r == self.data_size { unimplemented!() }
}

// `Ord for Option<usize>`: None < Some(_) (std derive); `a.max(b)`
pub open spec fn opt_max_spec(a: Option<usize>, b: Option<usize>) -> Option<usize> {
    match (a, b) {
        (Some(x), Some(y)) => if x >= y { Some(x) } else { Some(y) },
        (Some(x), None) => Some(x),
        (None, y) => y,
    }
}
#[verifier::external_body]
pub fn opt_max(a: Option<usize>, b: Option<usize>) -> (r: Option<usize>) ensures r == opt_max_spec(a, b) { unimplemented!() }

// ---- start-up scan of the work dir ----
#[verifier::external_body]
pub struct PathS { _p: u8 }
impl PathS {
    // the blob id encoded in the file name `<prefix>.<id>.<ext>`, if the name has that shape
    pub uninterp spec fn path_id(&self) -> Option<usize>;
}
pub struct FileNameS { pub id: usize }
impl FileNameS {
    // blob::FileName::from_path
    #[verifier::external_body]
    pub fn from_path(p: &PathS) -> (r: Result<FileNameS, AnyErr>)
        ensures r.is_ok() <==> p.path_id() is Some, r.is_ok() ==> r->Ok_0.id == p.path_id()->Some_0
    { unimplemented!() }
    pub fn id(&self) -> (r: usize) ensures r == self.id { self.id }
}
#[verifier::external_body]
pub struct BlobS { _p: u8 }
impl BlobS {
    pub uninterp spec fn id_spec(&self) -> usize;
    #[verifier::external_body]
    pub fn id(&self) -> (r: usize) ensures r == self.id_spec() { unimplemented!() }
}
#[verifier::external_body]
pub struct ConfigS { _p: u8 }
impl ConfigS {
    pub uninterp spec fn ignore(&self) -> bool;
    #[verifier::external_body]
    pub fn ignore_corrupted(&self) -> (r: bool) ensures r == self.ignore() { unimplemented!() }
    #[verifier::external_body]
    pub fn corrupted_dir_name(&self) -> (r: ()) { unimplemented!() }
}
// Storage::save_corrupted_blob: rename into the corrupted-blobs directory (+ remove the index file)
#[verifier::external_body]
pub fn save_corrupted_blob_call(p: &PathS, dir: ()) -> (r: Result<(), AnyErr>) { unimplemented!() }
pub open spec fn opt_ge(a: Option<usize>, b: Option<usize>) -> bool {
    match (a, b) { (_, None) => true, (Some(x), Some(y)) => x >= y, (None, Some(_)) => false }
}

// ---- RawRecords::start: the first record's magic byte and key length, read from the blob ----
// bincode::serialized_size(&0usize) / (&RECORD_MAGIC_BYTE): 8 (fixed-int; layout: Kani layout harnesses)
#[verifier::external_body]
pub fn bincode_size_of_u64() -> (r: Result<u64, AnyErr>) ensures r.is_ok() ==> r->Ok_0 == 8, r.is_err() ==> r->Err_0 is Other { unimplemented!() }
// value of 8 little-endian bytes
pub uninterp spec fn le_u64(b: Seq<u8>) -> u64;
// bincode::deserialize::<u64 / usize>(buf).map_err(Error::from): too few bytes => Bincode-class error
#[verifier::external_body]
pub fn deser_u64_slice(b: &[u8]) -> (r: Result<u64, AnyErr>)
    ensures r.is_ok() ==> b@.len() >= 8 && r->Ok_0 == le_u64(b@.subrange(0, 8)),
        r.is_err() ==> r->Err_0 == AnyErr::Pearl(Error { kind: ErrorKind::Bincode(()) })
{ unimplemented!() }
#[verifier::external_body]
pub fn deser_usize_slice(b: &[u8]) -> (r: Result<usize, AnyErr>)
    ensures r.is_ok() ==> b@.len() >= 8 && r->Ok_0 == le_u64(b@.subrange(0, 8)),
        r.is_err() ==> r->Err_0 == AnyErr::Pearl(Error { kind: ErrorKind::Bincode(()) })
{ unimplemented!() }
// BytesMut::split_at (Deref to [u8]): PANICS if mid > len
#[verifier::external_body]
pub fn bytes_split_at(b: &BytesMut, mid: usize) -> (r: (&[u8], &[u8]))
    requires mid <= b@.len()
    ensures r.0@ == b@.subrange(0, mid as int), r.1@ == b@.subrange(mid as int, b@.len() as int)
{ unimplemented!() }
// RecordHeader::default().serialized_size(): the header with an empty key (layout harness: 8+8+8+8+8+1+4+4 ... a constant)
pub uninterp spec fn default_header_len() -> u64;
#[verifier::external_body]
pub fn default_header_size() -> (r: u64) ensures r == default_header_len(), 0 < r < 0x100 { unimplemented!() }
pub const RECORD_MAGIC_BYTE: u64 = 0xacdc_bcde;

// ---- quarantine of a damaged blob: file-system effects as a ghost sequence (C06 / C07) ----
// std::path::Path / PathBuf / OsString by value; the path algebra is uninterpreted
#[verifier::external_body]
pub struct PathV { _p: u8 }
#[verifier::external_body]
pub struct OsName { _p: u8 }
pub enum FsOp { CreateDir(PathV), Rename(PathV, PathV), RemoveFile(PathV) }
#[verifier::external_body]
pub struct Fs { _p: u8 }
impl Fs { pub uninterp spec fn ops(&self) -> Seq<FsOp>; }
impl PathV {
    pub uninterp spec fn parent_sp(&self) -> Option<PathV>;
    pub uninterp spec fn file_name_sp(&self) -> Option<OsName>;
    pub uninterp spec fn join_str_sp(&self, s: Seq<char>) -> PathV;
    pub uninterp spec fn join_sp(&self, n: OsName) -> PathV;
    // the path with the INDEX-file extension
    pub uninterp spec fn with_index_ext_sp(&self) -> PathV;
    #[verifier::external_body]
    pub fn parent(&self) -> (r: Option<PathV>) ensures r == self.parent_sp() { unimplemented!() }
    #[verifier::external_body]
    pub fn file_name(&self) -> (r: Option<OsName>) ensures r == self.file_name_sp() { unimplemented!() }
    #[verifier::external_body]
    pub fn join_str(&self, s: &str) -> (r: PathV) ensures r == self.join_str_sp(s@) { unimplemented!() }
    #[verifier::external_body]
    pub fn join(&self, n: OsName) -> (r: PathV) ensures r == self.join_sp(n) { unimplemented!() }
    // `path.with_extension(blob::BLOB_INDEX_FILE_EXTENSION)`
    #[verifier::external_body]
    pub fn with_index_extension(&self) -> (r: PathV) ensures r == self.with_index_ext_sp() { unimplemented!() }
    // Path::exists: any answer (the directory is whatever it is)
    #[verifier::external_body]
    pub fn exists(&self) -> (r: bool) { unimplemented!() }
}
impl OsName {
    #[verifier::external_body]
    pub fn to_os_string(self) -> (r: OsName) ensures r == self { unimplemented!() }
}
// tokio::fs::{create_dir, rename, remove_file}: a successful call is ONE effect; a failed one has none
#[verifier::external_body]
pub fn fs_create_dir(fs: &mut Fs, p: PathV) -> (r: Result<(), AnyErr>)
    ensures r.is_ok() ==> final(fs).ops() == old(fs).ops().push(FsOp::CreateDir(p)), r.is_err() ==> final(fs).ops() == old(fs).ops() { unimplemented!() }
#[verifier::external_body]
pub fn fs_rename(fs: &mut Fs, from: &PathV, to: &PathV) -> (r: Result<(), AnyErr>)
    ensures r.is_ok() ==> final(fs).ops() == old(fs).ops().push(FsOp::Rename(*from, *to)), r.is_err() ==> final(fs).ops() == old(fs).ops() { unimplemented!() }
#[verifier::external_body]
pub fn fs_remove_file(fs: &mut Fs, p: &PathV) -> (r: Result<(), AnyErr>)
    ensures r.is_ok() ==> final(fs).ops() == old(fs).ops().push(FsOp::RemoveFile(*p)), r.is_err() ==> final(fs).ops() == old(fs).ops() { unimplemented!() }
#[verifier::external_body]
pub fn other_error() -> (r: AnyErr) ensures r is Other { unimplemented!() }
