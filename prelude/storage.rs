// Trusted prelude for the storage-level units.
#[verifier::external_body]
pub struct Config { _p: u8 }
impl Config {
    pub uninterp spec fn dirty_limit(&self) -> u64;
    #[verifier::external_body]
    pub fn max_dirty_bytes_before_sync(&self) -> (r: u64) ensures r == self.dirty_limit() { unimplemented!() }
    // configuration accessors (values irrelevant to the contracts: only presence matters)
    #[verifier::external_body]
    pub fn blob_file_name_prefix(&self) -> (r: Option<&str>) { unimplemented!() }
    #[verifier::external_body]
    pub fn work_dir(&self) -> (r: Option<PathRef>) { unimplemented!() }
    #[verifier::external_body]
    pub fn blob(&self) -> (r: BlobConfig) { unimplemented!() }
    pub uninterp spec fn allow_dup(&self) -> bool;
    pub uninterp spec fn max_size(&self) -> Option<u64>;
    pub uninterp spec fn max_count(&self) -> Option<u64>;
    pub uninterp spec fn debounce_ms(&self) -> u64;
    #[verifier::external_body]
    pub fn allow_duplicates(&self) -> (r: bool) ensures r == self.allow_dup() { unimplemented!() }
    #[verifier::external_body]
    pub fn max_blob_size(&self) -> (r: Option<u64>) ensures r == self.max_size() { unimplemented!() }
    #[verifier::external_body]
    pub fn max_data_in_blob(&self) -> (r: Option<u64>) ensures r == self.max_count() { unimplemented!() }
    #[verifier::external_body]
    pub fn debounce_interval_ms(&self) -> (r: u64) ensures r == self.debounce_ms() { unimplemented!() }
}
// &Path
#[verifier::external_body]
pub struct PathRef { _p: u8 }
// blob::FileName::new(prefix, id, extension, dir): the id is stored as given (src/blob/file_name.rs)
#[verifier::external_body]
pub fn blob_file_name_new(name_prefix: &str, id: usize, extension: &str, dir: PathRef) -> (r: BlobFileName) ensures r.id == id { unimplemented!() }
pub const BLOB_FILE_EXTENSION: &'static str = "blob";
// R8: AtomicUsize::fetch_add(1), sequentially. Machine arithmetic treated as mathematical: the
// blob id counter never reaches usize::MAX (one id per blob file ever created)
pub fn fetch_add_usize(a: &mut usize, n: usize) -> (r: usize)
    requires *old(a) + n <= usize::MAX
    ensures r == *old(a), *final(a) == *old(a) + n
{ let r = *a; *a = *a + n; r }
// storage::observer::Observer: requests sent to the background worker, as a ghost sequence
pub enum Request { TryFsyncData, TryUpdateActiveBlob, DeferredDump, TryDump, Create, Close, Restore, ForceUpdate }
#[verifier::external_body]
pub struct Observer { _p: u8 }
impl Observer {
    pub uninterp spec fn sent(&self) -> Seq<Request>;
    #[verifier::external_body]
    pub fn try_fsync_data(&mut self) ensures final(self).sent() == old(self).sent().push(Request::TryFsyncData) { unimplemented!() }
    #[verifier::external_body]
    pub fn try_update_active_blob(&mut self) ensures final(self).sent() == old(self).sent().push(Request::TryUpdateActiveBlob) { unimplemented!() }
    #[verifier::external_body]
    pub fn defer_dump_old_blob_indexes(&mut self) ensures final(self).sent() == old(self).sent().push(Request::DeferredDump) { unimplemented!() }
}

// R8: AtomicBool::compare_exchange(current, new, ..).is_err(), sequentially
pub fn cas_bool_failed(a: &mut bool, current: bool, new: bool) -> (failed: bool)
    ensures failed == (*old(a) != current), *final(a) == (if *old(a) == current { new } else { *old(a) })
{ if *a == current { *a = new; false } else { true } }

// Option<usize>::max (derived Ord: None < Some(_), Some by value)
pub open spec fn opt_max_usize_spec(a: Option<usize>, b: Option<usize>) -> Option<usize> {
    match (a, b) {
        (Some(x), Some(y)) => if x >= y { Some(x) } else { Some(y) },
        (Some(x), None) => Some(x),
        (None, y) => y,
    }
}
#[verifier::external_body]
pub fn opt_max_usize(a: Option<usize>, b: Option<usize>) -> (r: Option<usize>) ensures r == opt_max_usize_spec(a, b) { unimplemented!() }

// R8: AtomicUsize::compare_exchange(current, new, ..), sequentially
pub fn cas_usize(a: &mut usize, current: usize, new: usize) -> (r: Result<usize, usize>)
    ensures *old(a) == current ==> r == Ok::<usize, usize>(current) && *final(a) == new,
        *old(a) != current ==> r == Err::<usize, usize>(*old(a)) && *final(a) == *old(a)
{ if *a == current { *a = new; Ok(current) } else { Err(*a) } }
