// Trusted prelude for the storage-level units.
#[verifier::external_body]
pub struct Config { _p: u8 }
impl Config {
    pub uninterp spec fn dirty_limit(&self) -> u64;
    #[verifier::external_body]
    pub fn max_dirty_bytes_before_sync(&self) -> (r: u64) ensures r == self.dirty_limit() { unimplemented!() }
}
// storage::observer::Observer: requests sent to the background worker, as a ghost sequence
pub enum Request { TryFsyncData, TryUpdateActiveBlob, DeferredDump, TryDump, Create, Close, Restore, ForceUpdate }
#[verifier::external_body]
pub struct Observer { _p: u8 }
impl Observer {
    pub uninterp spec fn sent(&self) -> Seq<Request>;
    #[verifier::external_body]
    pub fn try_fsync_data(&mut self) ensures final(self).sent() == old(self).sent().push(Request::TryFsyncData) { unimplemented!() }
    #[verifier::external_body]
    pub fn try_update_active_blob(&mut self) ensures final(self).sent() == old(self).sent().push(Request::TryUpdateActiveBlob) { unimplemented!() }
    #[verifier::external_body]
    pub fn defer_dump_old_blob_indexes(&mut self) ensures final(self).sent() == old(self).sent().push(Request::DeferredDump) { unimplemented!() }
}

// R8: AtomicBool::compare_exchange(current, new, ..).is_err(), sequentially
pub fn cas_bool_failed(a: &mut bool, current: bool, new: bool) -> (failed: bool)
    ensures failed == (*old(a) != current), *final(a) == (if *old(a) == current { new } else { *old(a) })
{ if *a == current { *a = new; false } else { true } }
