pub assume_specification<T>[std::mem::replace::<T>](dest: &mut T, src: T) -> (r: T)
    ensures *final(dest) == src, r == *old(dest);

// number of live (not removed) children: the C15 oracle for "blobs that currently exist"
pub open spec fn live_count<C>(s: Seq<Option<Leaf<C>>>) -> nat
    decreases s.len()
{
    if s.len() == 0 { 0 } else { live_count(s.drop_last()) + (if s.last() is Some { 1nat } else { 0nat }) }
}

// std: `v.iter().flatten().count()` / `v.iter().filter(|c| c.is_some()).count()` over a
// Vec<Option<T>> count the Some elements (ASSUMED contract on the iterator adapters)
#[verifier::external_body]
pub fn count_live<C>(v: &Vec<Option<Leaf<C>>>) -> (r: usize)
    ensures r as nat == live_count(v@)
{ unimplemented!() }
