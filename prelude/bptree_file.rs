// Trusted prelude for the index-file unit.
pub uninterp spec fn index_hdr_bytes(h: IndexHeader) -> Seq<u8>;
// the IndexHeader encoded at the start of an index file image
pub uninterp spec fn embedded_header(file_image: Seq<u8>) -> IndexHeader;
impl IndexHeader {
    #[verifier::external_body]
    pub fn serialized_size(&self) -> (r: u64) ensures r == index_hdr_bytes(*self).len(), r <= 0x1000 { unimplemented!() }
}
// bincode::serialize_into((&mut buf).writer(), &header)
#[verifier::external_body]
pub fn ser_index_header_into(buf: &mut BytesMut, h: &IndexHeader) -> (r: Result<(), VErr>)
    ensures r.is_ok() ==> final(buf)@ == old(buf)@ + index_hdr_bytes(*h)
{ unimplemented!() }
#[verifier::external_body]
pub fn clean_file(path: (), recreate_index_file: bool) -> (r: Result<(), VErr>) { unimplemented!() }
// bincode::serialize_into(&mut buf[..], &header): overwrites the beginning of the image with the header
#[verifier::external_body]
pub fn ser_index_header_inplace(buf: &mut BytesMut, h: &IndexHeader) -> (r: Result<(), VErr>)
    ensures final(buf)@.len() == old(buf)@.len(), r.is_ok() ==> embedded_header(final(buf)@) == *h
{ unimplemented!() }

// ---- get_records_headers ----
#[verifier::external_body]
pub struct BufSlice { _p: u8 }
impl File {
    #[verifier::external_body]
    pub fn read_all(&self) -> (r: Result<BytesMut, VErr>) { unimplemented!() }
}
// &buf[offset..records_end]
#[verifier::external_body]
pub fn slice_of(buf: &BytesMut, from: usize, to: usize) -> (r: BufSlice) { unimplemented!() }
// bincode::deserialize::<RecordHeader>(&records_buf[offset..]) on ADVERSARIAL bytes: any header, or an error
#[verifier::external_body]
pub fn deser_header_at(buf: &BufSlice, offset: usize) -> (r: Result<RecordHeader, VErr>) { unimplemented!() }
// header.key().to_vec().into()
#[verifier::external_body]
pub fn key_of_header(h: &RecordHeader) -> (r: KeyT) ensures r@ == h.key@ { unimplemented!() }
// `for val in headers.values_mut() { if val.len() > 1 { val.reverse(); } }` (this exact loop text):
// every version vector reversed in place (ASSUMED: BTreeMap::values_mut visits every value once)
#[verifier::external_body]
pub fn reverse_each(m: &mut InMemoryIndex)
    ensures
        final(m)@.dom() == old(m)@.dom(),
        forall|k: Seq<u8>| old(m)@.contains_key(k) ==> #[trigger] final(m)@[k] == old(m)@[k].reverse(),
        sum_len(final(m)@) == sum_len(old(m)@),
{ unimplemented!() }
