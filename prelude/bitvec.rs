// R8: AtomicU64 operations lowered to sequential u64 operations with the same result
pub fn fetch_or_u64(a: &mut u64, m: u64) -> (prev: u64)
    ensures prev == *old(a), *final(a) == *old(a) | m
{ let p = *a; *a = p | m; p }
pub fn fetch_and_u64(a: &mut u64, m: u64) -> (prev: u64)
    ensures prev == *old(a), *final(a) == *old(a) & m
{ let p = *a; *a = p & m; p }
// vec![0; n]
#[verifier::external_body]
pub fn vec_zeroed_u64(n: usize) -> (r: Vec<u64>) ensures r@.len() == n, forall|i: int| 0 <= i < n ==> r@[i] == 0 { unimplemented!() }
