// Trusted prelude for the offline-tools unit: std::fs::File as a positioned byte sink with a ghost
// log of the record headers written (position, header), bincode calls, and the adversarial reader.
#[verifier::external_body]
pub struct Meta { _p: u8 }
pub uninterp spec fn meta_len(m: Meta) -> u64;
pub uninterp spec fn header_len(h: RecordHeader) -> u64;

#[verifier::external_body]
pub struct StdFile { _p: u8 }
impl StdFile {
    // current write position and the headers serialised so far, with the position of each
    pub uninterp spec fn pos(&self) -> int;
    pub uninterp spec fn log(&self) -> Seq<(int, RecordHeader)>;
    pub uninterp spec fn attempts(&self) -> nat;
    // output side: how many records of the log / how many bytes of the file have been re-read and
    // compared with what was meant to be written (BlobWriter::validate_written_*) - ghost
    pub uninterp spec fn vrecs(&self) -> nat;
    pub uninterp spec fn vbytes(&self) -> nat;
    #[verifier::external_body]
    pub fn write_all_vec(&mut self, buf: &Vec<u8>) -> (r: Result<(), TErr>)
        ensures r.is_ok() ==> final(self).pos() == old(self).pos() + buf@.len() && final(self).log() == old(self).log(),
            final(self).vrecs() == old(self).vrecs(), final(self).vbytes() == old(self).vbytes(), final(self).blob_header() == old(self).blob_header(),
    { unimplemented!() }
    #[verifier::external_body]
    pub fn write_all_bytes(&mut self, buf: &Bytes) -> (r: Result<(), TErr>)
        ensures r.is_ok() ==> final(self).pos() == old(self).pos() + buf@.len() && final(self).log() == old(self).log(),
            final(self).vrecs() == old(self).vrecs(), final(self).vbytes() == old(self).vbytes(), final(self).blob_header() == old(self).blob_header(),
    { unimplemented!() }
}
impl Bytes {
    #[verifier::external_body]
    pub fn len(&self) -> (r: usize) ensures r == self@.len() { unimplemented!() }
}
// bincode::serialize_into(&mut file, &header)
#[verifier::external_body]
pub fn ser_header_into_file(f: &mut StdFile, h: &RecordHeader) -> (r: Result<(), TErr>)
    ensures r.is_ok() ==> final(f).pos() == old(f).pos() + header_len(*h)
        && final(f).log() == old(f).log().push((old(f).pos(), *h)),
        final(f).vrecs() == old(f).vrecs(), final(f).vbytes() == old(f).vbytes(), final(f).blob_header() == old(f).blob_header(),
{ unimplemented!() }
#[verifier::external_body]
pub fn header_serialized_size(h: &RecordHeader) -> (r: Result<u64, TErr>)
    ensures r.is_ok() ==> r->Ok_0 == header_len(*h), 1 <= header_len(*h) <= 0x1_0000,
        r.is_err() ==> !(r->Err_0 is Tools) && !(r->Err_0 is PearlValidation)
{ unimplemented!() }
#[verifier::external_body]
pub fn ser_meta(m: &Meta) -> (r: Result<Vec<u8>, TErr>)
    ensures r.is_ok() ==> r->Ok_0@.len() == meta_len(*m)
{ unimplemented!() }
impl RecordHeader {
    // Header::with_blob_offset (src/record/record.rs): sets the offset and recomputes the header
    // checksum; every other field unchanged (same serialized length)
    #[verifier::external_body]
    pub fn with_blob_offset(self, blob_offset: u64) -> (r: Result<RecordHeader, TErr>)
        ensures r.is_ok() ==> r->Ok_0.blob_offset == blob_offset && r->Ok_0.key == self.key
            && r->Ok_0.timestamp == self.timestamp && r->Ok_0.flags == self.flags
            && r->Ok_0.data_size == self.data_size && r->Ok_0.meta_size == self.meta_size
            && r->Ok_0.data_checksum == self.data_checksum && header_len(r->Ok_0) == header_len(self)
    { unimplemented!() }
}
#[verifier::external_body]
pub fn cache_push(c: &mut Vec<Record>, r: Record) ensures final(c)@ == old(c)@.push(r) { unimplemented!() }

// anyhow::Error as the tools inspect it: ToolsError variants (src/tools/error.rs) or anything else
pub enum ToolsError { RecordValidation(()), RecordHeaderValidation(()), SkipRecordData(()), Other(()) }
// PearlValidation: a record / header validation error of the library itself (crate::Error), NOT a ToolsError
pub enum TErr { Tools(ToolsError), Io, PearlValidation, Misc }
impl TErr {
    // anyhow::Error::downcast_ref::<ToolsError>()
    pub fn downcast_tools(&self) -> (r: Option<&ToolsError>)
        ensures r == (match self { TErr::Tools(e) => Some(e), _ => None::<&ToolsError> })
    { match self { TErr::Tools(e) => Some(e), _ => None } }
}
impl StdFile {
    // std::io::Seek::seek(SeekFrom::Start(p))
    #[verifier::external_body]
    pub fn seek_start(&mut self, p: u64) -> (r: Result<u64, TErr>)
        ensures r.is_ok() ==> final(self).pos() == p, final(self).log() == old(self).log(), final(self).attempts() == old(self).attempts(),
            r.is_err() ==> !(r->Err_0 is Tools) && !(r->Err_0 is PearlValidation)
    { unimplemented!() }
}
impl RecordHeader {
    // accessors of record::Header (verified in unit `record`)
    #[verifier::external_body]
    pub fn data_size(&self) -> (r: u64) ensures r == self.data_size { unimplemented!() }
    #[verifier::external_body]
    pub fn meta_size(&self) -> (r: u64) ensures r == self.meta_size { unimplemented!() }
    #[verifier::external_body]
    pub fn meta_offset(&self) -> (r: u64)
        requires self.blob_offset + header_len(*self) <= u64::MAX
        ensures r == self.blob_offset + header_len(*self) { unimplemented!() }
    #[verifier::external_body]
    pub fn data_offset(&self) -> (r: u64)
        requires self.blob_offset + header_len(*self) + self.meta_size <= u64::MAX
        ensures r == self.blob_offset + header_len(*self) + self.meta_size { unimplemented!() }
}
// "the record passed header magic+CRC and data CRC" (ADVERSARIAL input: any bytes may be read)
pub uninterp spec fn record_intact(r: Record) -> bool;

// ---- reader side: bincode / read_exact on an ADVERSARIAL file ----
pub uninterp spec fn header_valid(h: RecordHeader) -> bool;
impl StdFile {
    // bincode::deserialize_from(&mut file): consumes exactly the serialized length of the header it returns
    #[verifier::external_body]
    pub fn deser_header(&mut self) -> (r: Result<RecordHeader, TErr>)
        // (`attempts()`: how many record reads were started on this file - ghost counter)
        ensures r.is_ok() ==> final(self).pos() == old(self).pos() + header_len(r->Ok_0), final(self).log() == old(self).log(),
            final(self).attempts() == old(self).attempts() + 1,
            r.is_err() ==> !(r->Err_0 is Tools) && !(r->Err_0 is PearlValidation),
    { unimplemented!() }
    // Read::read_exact(&mut buf)
    #[verifier::external_body]
    pub fn read_exact_vec(&mut self, buf: &mut Vec<u8>) -> (r: Result<(), TErr>)
        ensures r.is_ok() ==> final(self).pos() == old(self).pos() + old(buf)@.len(), final(buf)@.len() == old(buf)@.len(),
            final(self).attempts() == old(self).attempts(),
            final(self).log() == old(self).log(), r.is_err() ==> !(r->Err_0 is Tools) && !(r->Err_0 is PearlValidation),
    { unimplemented!() }
}
impl RecordHeader {
    // Header::validate (magic byte + header CRC; unit `record`)
    #[verifier::external_body]
    pub fn validate(&self) -> (r: Result<(), TErr>)
        // (a header that passes magic + CRC was written by the storage: its size fields are real sizes,
        // far below u64::MAX - ASSUMED, as in unit raw_scan)
        ensures r.is_ok() <==> header_valid(*self), r.is_err() ==> r->Err_0 is PearlValidation,
            r.is_ok() ==> self.meta_size < 0x100_0000_0000 && self.data_size < 0x100_0000_0000
    { unimplemented!() }
    #[verifier::external_body]
    pub fn clone(&self) -> (r: RecordHeader) ensures r == *self { unimplemented!() }
}
impl Record {
    // Record::validate (header validation + data CRC; unit `record`)
    #[verifier::external_body]
    pub fn validate(self) -> (r: Result<Record, TErr>)
        ensures r.is_ok() ==> r->Ok_0 == self && record_intact(self), r.is_err() ==> r->Err_0 is PearlValidation
    { unimplemented!() }
}
// vec![0; n]
#[verifier::external_body]
pub fn vec_zeroed_u8(n: usize) -> (r: Vec<u8>) ensures r@.len() == n { unimplemented!() }
// bincode::deserialize::<Meta>(&bytes)
#[verifier::external_body]
pub fn deser_meta(b: &Vec<u8>) -> (r: Result<Meta, TErr>)
    ensures r.is_err() ==> !(r->Err_0 is Tools) && !(r->Err_0 is PearlValidation),
        // bincode (fixed-int, the crate's configuration) is canonical for Meta = HashMap<String, Vec<u8>>:
        // a value decoded from n bytes re-encodes to the bytes it consumed, at most n (ASSUMED)
        r.is_ok() ==> meta_len(r->Ok_0) <= b@.len(),
{ unimplemented!() }
// Vec<u8> -> Bytes
#[verifier::external_body]
pub fn bytes_from_vec(v: Vec<u8>) -> (r: Bytes) ensures r@ == v@ { unimplemented!() }

// ---- the blob header as the tools read it (BlobReader::read_data::<BlobHeader>) ----
pub struct ToolBlobHeader { pub magic_byte: u64, pub version: u32, pub flags: u64 }
// bincode length of the blob header (fixed-int encoding: 8 + 4 + 8; NOT size_of, which includes padding)
pub open spec fn blob_header_len(h: ToolBlobHeader) -> nat { 20 }
pub const BLOB_MAGIC_BYTE: u64 = 0xdeaf_abcd;
impl StdFile {
    // bincode::deserialize_from(&mut file): consumes exactly the serialized length of the value it returns
    #[verifier::external_body]
    pub fn deser_blob_header(&mut self) -> (r: Result<ToolBlobHeader, TErr>)
        ensures r.is_ok() ==> final(self).pos() == old(self).pos() + blob_header_len(r->Ok_0), final(self).log() == old(self).log(),
            final(self).attempts() == old(self).attempts(),
            r.is_err() ==> !(r->Err_0 is Tools) && !(r->Err_0 is PearlValidation),
    { unimplemented!() }
}
#[verifier::external_body]
pub fn blob_header_serialized_size(h: &ToolBlobHeader) -> (r: Result<u64, TErr>)
    ensures r.is_ok() ==> r->Ok_0 == blob_header_len(*h), r.is_err() ==> !(r->Err_0 is Tools) && !(r->Err_0 is PearlValidation)
{ unimplemented!() }
impl ToolBlobHeader {
    // blob::Header::validate_without_version (src/blob/header.rs): the magic byte
    #[verifier::external_body]
    pub fn validate_without_version(&self) -> (r: Result<(), TErr>)
        ensures r.is_ok() <==> self.magic_byte == BLOB_MAGIC_BYTE
    { unimplemented!() }
}

// ---- process_blob_with / recovery_blob (src/tools/utils.rs) ----
impl StdFile {
    // the blob header at the start of the output file (ghost)
    pub uninterp spec fn blob_header(&self) -> Option<ToolBlobHeader>;
}
// paths: opaque; `input.as_ref() == output.as_ref()`
#[verifier::external_body]
pub struct PathArg { _p: u8 }
#[verifier::external_body]
pub fn same_path(a: &PathArg, b: &PathArg) -> (r: bool) { unimplemented!() }
impl BlobReader {
    // BlobReader::from_path: read-only open, position 0, len = file length (ASSUMED < 2^62: a real file)
    #[verifier::external_body]
    pub fn from_path(p: &PathArg) -> (r: Result<BlobReader, TErr>)
        ensures r.is_ok() ==> r->Ok_0.wf() && r->Ok_0.position == 0 && r->Ok_0.latest_wrong_header is None && r->Ok_0.len < 0x4000_0000_0000_0000
    { unimplemented!() }
}
impl BlobWriter {
    // BlobWriter::from_path: create + truncate, nothing written
    #[verifier::external_body]
    pub fn from_path(p: &PathArg, cache_written: bool) -> (r: Result<BlobWriter, TErr>)
        ensures r.is_ok() ==> r->Ok_0.wf() && r->Ok_0.written == 0 && r->Ok_0.written_cached == 0 && r->Ok_0.file.log().len() == 0
            && (r->Ok_0.cache is Some <==> cache_written) && (r->Ok_0.cache is Some ==> r->Ok_0.cache->Some_0@.len() == 0)
            && r->Ok_0.file.vrecs() == 0 && r->Ok_0.file.vbytes() == 0 && r->Ok_0.file.blob_header() is None
    { unimplemented!() }
    // BlobWriter::write_header + validate_written_header (re-reads what it wrote through a cloned descriptor)
    #[verifier::external_body]
    pub fn write_header(&mut self, h: &ToolBlobHeader) -> (r: Result<(), TErr>)
        requires old(self).wf(), old(self).written == 0
        ensures r.is_ok() ==> final(self).wf() && final(self).written == blob_header_len(*h) && final(self).file.log() == old(self).file.log()
            && final(self).cache == old(self).cache && final(self).written_cached == old(self).written_cached
            // the header is in the file, and was re-read and compared (validate_written_header)
            && final(self).file.blob_header() == Some(*h) && final(self).file.vbytes() == blob_header_len(*h) && final(self).file.vrecs() == old(self).file.vrecs()
    { unimplemented!() }
    // BlobWriter::validate_written_records: re-reads the cached records through a cloned descriptor and
    // compares; the writer's own position, counters and log are restored
    #[verifier::external_body]
    pub fn validate_written_records(&mut self) -> (r: Result<(), TErr>)
        requires old(self).wf()
        ensures final(self).wf(), final(self).written == old(self).written, final(self).file.log() == old(self).file.log(),
            final(self).cache == old(self).cache, final(self).written_cached == old(self).written_cached,
            final(self).file.blob_header() == old(self).file.blob_header(),
            // Ok: every cached record was found, equal, in the `written_cached` bytes before the current position
            r.is_ok() && old(self).cache is Some ==> final(self).file.vrecs() == old(self).file.vrecs() + old(self).cache->Some_0@.len()
                && final(self).file.vbytes() == old(self).file.vbytes() + old(self).written_cached,
            old(self).cache is None ==> final(self).file.vrecs() == old(self).file.vrecs() && final(self).file.vbytes() == old(self).file.vbytes(),
    { unimplemented!() }
}
#[verifier::external_body]
pub fn misc_error() -> (r: TErr) ensures r is Misc { unimplemented!() }
#[verifier::external_body]
pub fn records_clear(c: &mut Vec<Record>) ensures final(c)@.len() == 0 { unimplemented!() }
// record::Header::default().serialized_size(): length of a record header with an empty key (57: Kani layout harness)
#[verifier::external_body]
pub fn default_record_header_size() -> (r: u64) ensures r == 57 { unimplemented!() }
