// Trusted prelude for the background worker unit: tokio channel / task handles / timers and the
// storage entry points the worker calls, as nondeterministic stubs.
#[verifier::external_body]
pub struct Instant { _p: u8 }
impl Clone for Instant { #[verifier::external_body] fn clone(&self) -> (r: Self) ensures r == *self { unimplemented!() } }
impl Copy for Instant {}
#[verifier::external_body]
pub struct JoinHandle { _p: u8 }
#[verifier::external_body]
pub struct DeferredEventData { _p: u8 }
#[verifier::external_body]
pub struct Duration { _p: u8 }
impl Clone for Duration { #[verifier::external_body] fn clone(&self) -> (r: Self) ensures r == *self { unimplemented!() } }
impl Copy for Duration {}
impl DeferredEventData {
    // wall-clock bookkeeping of one pending deferral: times are opaque
    #[verifier::external_body]
    pub fn new() -> (r: DeferredEventData) { unimplemented!() }
    #[verifier::external_body]
    pub fn update_last_time(&mut self) { unimplemented!() }
    #[verifier::external_body]
    pub fn next_deadline(&self, min: Duration, max: Duration) -> (r: Instant) { unimplemented!() }
    // `deferred.last_time.elapsed() >= min || deferred.first_time.elapsed() >= max`: any answer
    #[verifier::external_body]
    pub fn is_due(&self, min: Duration, max: Duration) -> (r: bool) { unimplemented!() }
}
// `deadline < prev_deadline` on Instants: any answer
#[verifier::external_body]
pub fn instant_lt(a: Instant, b: Instant) -> (r: bool) { unimplemented!() }
pub struct Msg { pub optype: OperationType, pub predicate: Option<ActiveBlobPred> }
#[verifier::external_body]
pub struct ActiveBlobPred { _p: u8 }

// tokio::sync::mpsc::Receiver<Msg>
#[verifier::external_body]
pub struct Receiver { _p: u8 }
impl Receiver {
    // every Sender has been dropped and the queue is drained (Observer::shutdown / Storage::close)
    pub uninterp spec fn closed(&self) -> bool;
    // number of messages taken out of the channel so far (ghost)
    pub uninterp spec fn taken(&self) -> nat;
    #[verifier::external_body]
    pub fn recv(&mut self) -> (r: Option<Msg>)
        ensures r is None ==> final(self).closed() && final(self).taken() == old(self).taken(),
            r is Some ==> final(self).taken() == old(self).taken() + 1,
    { unimplemented!() }
}
// timeout_at(deadline, receiver.recv())
#[verifier::external_body]
pub fn recv_with_deadline(deadline: Instant, rx: &mut Receiver) -> (r: Result<Option<Msg>, ()>)
    ensures r is Ok && r->Ok_0 is None ==> final(rx).closed(),
        r is Ok && r->Ok_0 is Some ==> final(rx).taken() == old(rx).taken() + 1,
        !(r is Ok && r->Ok_0 is Some) ==> final(rx).taken() == old(rx).taken(),
{ unimplemented!() }
#[verifier::external_body]
pub fn deadline_plus_eps(d: Instant) -> (r: Instant) { unimplemented!() }

// `task.as_ref().map_or(false, |task| task.is_finished())`
#[verifier::external_body]
pub fn task_is_finished(t: &Option<JoinHandle>) -> (r: bool) ensures r ==> *t is Some { unimplemented!() }
// `task.as_ref().map_or(false, |task| !task.is_finished())`
#[verifier::external_body]
pub fn task_in_progress(t: &Option<JoinHandle>) -> (r: bool) ensures r ==> *t is Some, r == in_progress(*t) { unimplemented!() }
// the task behind the handle has not finished yet (wall-clock fact, any value for a Some handle)
pub uninterp spec fn in_progress(t: Option<JoinHandle>) -> bool;
#[verifier::external_body]
pub fn complete_task(t: &mut Option<JoinHandle>, name: &str) ensures *final(t) is None { unimplemented!() }

// Arc<Inner<K>> as the worker sees it: each entry point may succeed or fail; `log()` records which
// entry points were called, in order (ghost; R7: the storage has interior mutability)
pub enum InnerOp { Close, Create, Restore, ForceUpdate }
#[verifier::external_body]
pub struct InnerRef { _p: u8 }
impl InnerRef {
    pub uninterp spec fn log(&self) -> Seq<InnerOp>;
    #[verifier::external_body]
    pub fn deferred_min_time(&self) -> (r: Duration) { unimplemented!() }
    #[verifier::external_body]
    pub fn deferred_max_time(&self) -> (r: Duration) { unimplemented!() }
    #[verifier::external_body]
    pub fn close_active_blob(&mut self) -> (r: Result<(), VErr>) ensures final(self).log() == old(self).log().push(InnerOp::Close) { unimplemented!() }
    #[verifier::external_body]
    pub fn create_active_blob(&mut self) -> (r: Result<(), VErr>) ensures final(self).log() == old(self).log().push(InnerOp::Create) { unimplemented!() }
    #[verifier::external_body]
    pub fn restore_active_blob(&mut self) -> (r: Result<(), VErr>) ensures final(self).log() == old(self).log().push(InnerOp::Restore) { unimplemented!() }
}
#[verifier::external_body]
pub fn update_active_blob(inner: &mut InnerRef) -> (r: Result<(), VErr>) ensures final(inner).log() == old(inner).log().push(InnerOp::ForceUpdate) { unimplemented!() }
// tokio::spawn(async move { .. }): a handle of a running task
#[verifier::external_body]
pub fn spawn_task() -> (r: JoinHandle) { unimplemented!() }

// tokio::sync::mpsc::Sender<Msg> (bounded channel). `queued()`: the messages the channel has accepted so
// far, in order (ghost); tokio delivers every accepted message to the receiver in this order (TRUSTED).
#[verifier::external_body]
pub struct Sender { _p: u8 }
pub struct SendError { pub m: Msg }
impl Sender {
    pub uninterp spec fn queued(&self) -> Seq<Msg>;
    // the receiving half was dropped / closed (the worker has stopped)
    pub uninterp spec fn rx_closed(&self) -> bool;
    // `send(msg).await`: waits for a free slot; fails ONLY when the receiver is gone
    #[verifier::external_body]
    pub fn send(&mut self, msg: Msg) -> (r: Result<(), SendError>)
        ensures r is Ok ==> final(self).queued() == old(self).queued().push(msg),
            r is Err ==> old(self).rx_closed() && final(self).queued() == old(self).queued(),
    { unimplemented!() }
    // `try_send(msg)`: never waits; fails when the receiver is gone OR the queue is full
    #[verifier::external_body]
    pub fn try_send(&mut self, msg: Msg) -> (r: Result<(), SendError>)
        ensures r is Ok ==> final(self).queued() == old(self).queued().push(msg),
            r is Err ==> final(self).queued() == old(self).queued(),
    { unimplemented!() }
}
#[verifier::external_body]
pub fn optype_clone(o: &OperationType) -> (r: OperationType) ensures r == *o { unimplemented!() }
