"""Kani route: harnesses compiled inside the real pearl crate (cfg(kani) hooks), DESIGN §1.2."""
import os, re, subprocess, time, json

KANI_TIMEOUT = int(os.environ.get("VERIF_KANI_TIMEOUT", "900"))


def _run(repo, build, harnesses, extra=(), timeout=KANI_TIMEOUT):
    cmd = ["cargo", "kani", "--lib", "--target-dir", os.path.join(build, "kani"),
           "-Z", "function-contracts", "-Z", "stubbing", "--output-format", "terse"]
    for h in harnesses:
        cmd += ["--harness", h]
    cmd += list(extra)
    env = dict(os.environ)
    env["CARGO_NET_OFFLINE"] = "true"
    t0 = time.time()
    try:
        r = subprocess.run(cmd, cwd=repo, env=env, stdout=subprocess.PIPE, stderr=subprocess.STDOUT,
                           text=True, timeout=timeout)
        out, rc = r.stdout, r.returncode
    except subprocess.TimeoutExpired as e:
        out, rc = (e.stdout or "") + "\nTIMEOUT", 124
        if isinstance(out, bytes):
            out = out.decode(errors="replace")
    return cmd, out, rc, time.time() - t0


def _split(out):
    """per-harness sections of the cargo-kani output"""
    secs = {}
    cur = None
    for line in out.splitlines():
        m = re.match(r"(?:Thread \d+: )?Checking harness (\S+?)\.\.\.", line)
        if m:
            cur = m.group(1)
            secs[cur] = []
        elif cur is not None:
            secs[cur].append(line)
    # -j output format: "Thread N: Checking harness X..."; results summarised at the end
    return {k: "\n".join(v) for k, v in secs.items()}


def run_harnesses(repo, verif, build, specs, tier):
    res = {"harnesses": [], "trusted": []}
    todo = [s for s in specs if tier == "thorough" or s.get("tier", "quick") == "quick"]
    if not todo:
        return res
    names = [s["harness"] for s in todo]
    cmd, out, rc, wall = _run(repo, build, names)
    log = os.path.join(build, "kani-last.log")
    os.makedirs(build, exist_ok=True)
    open(log, "w").write(out)
    cmd_s = "(cd /repo && " + " ".join(cmd) + ")"
    res["trusted"].append("kani/cbmc: bit-precise semantics of the compiled MIR; termination not checked by Kani")
    build_failed = ("error: could not compile" in out) or ("error[E" in out)
    for s in todo:
        h = s["harness"]
        short = h.split("::")[-1]
        entry = {"harness": h, "kind": s.get("kind", "complete"), "bound": s.get("bound"), "what": s.get("what", ""),
                 "functions": s.get("functions", []), "file": s.get("file"), "cmd": cmd_s, "wall_s": wall}
        if build_failed or rc == 124:
            entry.update(status="undecided", reason=("timeout after %ds" % KANI_TIMEOUT) if rc == 124 else "kani build failed: " + _first_error(out))
            res["harnesses"].append(entry)
            continue
        # summary lines
        m_ok = re.search(r"Verification succeeded for - .*%s\b" % re.escape(short), out)
        m_bad = re.search(r"Verification failed for - .*%s\b" % re.escape(short), out)
        # per-harness block when run sequentially
        block = ""
        for k, v in _split(out).items():
            if k.endswith(short):
                block = v
        checks = failed = 0
        mm = re.search(r"\*\* (\d+) of (\d+) failed", block)
        if mm:
            failed, checks = int(mm.group(1)), int(mm.group(2))
        tm = re.search(r"Verification Time: ([0-9.]+)s", block)
        entry["solver_s"] = float(tm.group(1)) if tm else 0.0
        entry["checks"], entry["failed"] = checks, failed
        uncovered = re.findall(r"cover.*UNSATISFIABLE|Status: UNSATISFIABLE", block)
        if "VERIFICATION:- SUCCESSFUL" in block or (m_ok and not m_bad):
            if checks == 0:
                entry.update(status="undecided", reason="vacuity guard: zero checks reported")
            elif uncovered or "UNSATISFIABLE" in block and "cover" in block:
                entry.update(status="undecided", reason="vacuity guard: a kani::cover! is unsatisfiable")
            else:
                entry["status"] = "ok"
        elif "VERIFICATION:- FAILED" in block or m_bad:
            fl = [l for l in block.splitlines() if l.startswith("Failed Checks:")]
            # unwinding assertion failures mean the bound was too small, not a violation
            if any("unwinding assertion" in l for l in fl) and all(("unwinding assertion" in l) for l in fl):
                entry.update(status="undecided", reason="unwinding bound too small")
            else:
                entry.update(status="failed", failure="; ".join(fl)[:800])
        else:
            entry.update(status="undecided", reason="no verdict for harness in kani output (see %s)" % log)
        res["harnesses"].append(entry)
    return res


def _first_error(out):
    for l in out.splitlines():
        if l.startswith("error"):
            return l[:300]
    return out[-300:]


def concrete_playback(repo, build, harness):
    cmd, out, rc, wall = _run(repo, build, [harness], extra=["-Z", "concrete-playback", "--concrete-playback=print"], timeout=600)
    vals = []
    m = re.search(r"let concrete_vals: Vec<Vec<u8>> = vec!\[(.*?)\];", out, re.S)
    if m:
        for v in re.finditer(r"vec!\[([0-9, ]*)\]", m.group(1)):
            vals.append([int(x) for x in v.group(1).split(",") if x.strip()])
    test = ""
    m2 = re.search(r"(#\[test\]\s*fn kani_concrete_playback.*?\n\})", out, re.S)
    if m2:
        test = m2.group(1)
    return vals, test


def find_witness(repo, verif, build, prop, violation):
    """a concrete failing input for a violated obligation, if a Kani harness can give one"""
    reg = json.load(open(os.path.join(verif, "registry.json")))
    if violation.get("kani"):
        h = violation["kani"]["harness"]
    else:
        h = None
        for pref, hn in reg.get("witness_harness", {}).items():
            if violation["obligation"].startswith(pref):
                h = hn
    if not h:
        return None
    try:
        if not violation.get("kani"):
            # the paired harness must itself fail on the current tree, otherwise there is no witness
            r = run_harnesses(repo, verif, build, [{"harness": h}], "thorough")
            if not r["harnesses"] or r["harnesses"][0]["status"] != "failed":
                return None
        vals, test = concrete_playback(repo, build, h)
    except Exception:
        return None
    if not vals:
        return None
    return {"harness": h, "concrete_vals": vals, "playback_test": test,
            "how_to_replay": "./check %s --replay <this file>: builds /repo's lib tests with RUSTFLAGS='--cfg pearl_verif' and runs the harness body on these bytes against the real function" % prop}


def replay_witness(repo, verif, build, rep):
    w = rep["witness"]
    short = w["harness"].split("::")[-1]
    if short.startswith("bounded_"):
        short = w["harness"]
    env = dict(os.environ)
    env["CARGO_NET_OFFLINE"] = "true"
    env["RUSTFLAGS"] = (env.get("RUSTFLAGS", "") + " --cfg pearl_verif").strip()
    env["VERIF_REPLAY_VALS"] = json.dumps(w["concrete_vals"])
    env["VERIF_REPLAY_HARNESS"] = short
    cmd = ["cargo", "test", "--offline", "--lib", "--target-dir", os.path.join(build, "replay-target"),
           "verif_replay", "--", "--nocapture", "--test-threads", "1"]
    r = subprocess.run(cmd, cwd=repo, env=env, stdout=subprocess.PIPE, stderr=subprocess.STDOUT, text=True)
    print(r.stdout[-3000:])
    if "REPLAY-VIOLATION" in r.stdout or "panicked" in r.stdout:
        print("VIOLATION property=%s replay=%s obligation=%s (replayed on the real code)" % (rep["property"], "<this file>", rep["obligation"]))
        return 1
    return 0


def run_native(repo, verif, build, specs, tier):
    """native bounded stand-ins: exhaustive enumeration tests compiled into the real crate under
    cfg(pearl_verif) (kani/*.rs, EnumSrc). Labelled bounded; never counted as proved."""
    out = []
    for s in specs:
        env = dict(os.environ)
        env["CARGO_NET_OFFLINE"] = "true"
        env["RUSTFLAGS"] = (env.get("RUSTFLAGS", "") + " --cfg pearl_verif").strip()
        env["VERIF_BOUND"] = "thorough" if tier == "thorough" else "quick"
        cmd = ["cargo", "test", "--offline", "--lib", "--target-dir", os.path.join(build, "replay-target"),
               s["test"], "--", "--nocapture", "--test-threads", "1"]
        t0 = time.time()
        try:
            r = subprocess.run(cmd, cwd=repo, env=env, stdout=subprocess.PIPE, stderr=subprocess.STDOUT, text=True, timeout=1800)
            o = r.stdout
        except subprocess.TimeoutExpired:
            o = "TIMEOUT"
        e = {"harness": s["harness"], "kind": "bounded", "bound": s.get("bound_" + ("thorough" if tier == "thorough" else "quick"), s.get("bound")),
             "what": s.get("what", ""), "functions": s.get("functions", []), "file": s.get("file"),
             "cmd": "(cd /repo && RUSTFLAGS='--cfg pearl_verif' VERIF_BOUND=%s %s)" % (env["VERIF_BOUND"], " ".join(cmd)), "wall_s": time.time() - t0,
             "backend": "native exhaustive enumeration"}
        m = re.search(r"BOUNDED-OK harness=\S+ runs=(\d+)", o)
        v = re.search(r"BOUNDED-VIOLATION harness=(\S+) group_size=(\d+) ops=(\d+) nkeys=(\d+) choices=(\[.*\])", o)
        if v:
            msg = [l for l in o.splitlines() if "REPLAY-VIOLATION" in l]
            e.update(status="failed", failure=(msg[0] if msg else "assertion failed"),
                     witness={"harness": "%s:%s:%s:%s" % (v.group(1), v.group(2), v.group(3), v.group(4)),
                              "concrete_vals": json.loads(v.group(5)),
                              "how_to_replay": "./check <prop> --replay <this file>: runs the same body on these choices against the real code"})
        elif m and "test result: ok" in o:
            e.update(status="ok", checks=int(m.group(1)))
        else:
            e.update(status="undecided", reason="native bounded test gave no verdict: " + _first_error(o))
        out.append(e)
    return out
