use vstd::prelude::*;
verus! {

// ---- trusted prelude (assumed contracts on types the extraction keeps opaque) ----
#[verifier::external_body]
pub struct RecordHeader { _p: u8 }

pub uninterp spec fn hdr_ts(h: &RecordHeader) -> u64;

impl RecordHeader {
    #[verifier::external_body]
    pub fn timestamp(&self) -> (r: u64)
        ensures r == hdr_ts(self)
    { unimplemented!() }
}

pub open spec fn ts_sorted(s: Seq<RecordHeader>) -> bool {
    forall|i: int, j: int| 0 <= i <= j < s.len() ==> hdr_ts(&s[i]) <= hdr_ts(&s[j])
}

// std slice::binary_search_by specialised to the comparator found in the source
#[verifier::external_body]
fn bsearch_ts(v: &Vec<RecordHeader>, ts: u64) -> (r: usize)
    requires ts_sorted(v@)
    ensures r <= v.len(),
        // Ok(i): some matching element; Err(i): insertion point
        (r < v.len() && hdr_ts(&v@[r as int]) == ts) ||
        ((forall|i: int| 0 <= i < r ==> hdr_ts(&v@[i]) < ts) && (forall|i: int| r <= i < v.len() ==> hdr_ts(&v@[i]) > ts)),
{ unimplemented!() }

// ---- extracted fragment of IndexStruct::push (src/blob/index/core.rs) ----
fn push_fragment(v: &mut Vec<RecordHeader>, h: RecordHeader)
    requires ts_sorted(old(v)@)
    ensures
        ts_sorted(final(v)@),
        exists|pos: int| 0 <= pos <= old(v)@.len()
            && final(v)@ == old(v)@.insert(pos, h)
            && (forall|i: int| 0 <= i < pos ==> hdr_ts(&old(v)@[i]) <= hdr_ts(&h))
            && (forall|i: int| pos <= i < old(v)@.len() ==> hdr_ts(&old(v)@[i]) > hdr_ts(&h)),
{
    let mut pos = 0;
    if v.len() > 4 {
        pos = bsearch_ts(v, h.timestamp());
    }
    while pos < v.len() && v[pos].timestamp() <= h.timestamp()
        invariant
            pos <= v.len(), ts_sorted(v@), v@ == old(v)@,
            forall|i: int| 0 <= i < pos ==> hdr_ts(&v@[i]) <= hdr_ts(&h),
        decreases v.len() - pos
    {
        pos += 1;
    }
    v.insert(pos, h);
}

}
fn main() {}
