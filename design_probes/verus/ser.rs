use vstd::prelude::*;
verus! {

pub const BLOCK_SIZE: usize = 4096;

// ---------- trusted prelude ----------
pub struct KeyBytes { pub b: Vec<u8> }
#[verifier::external_body]
pub struct RecordHeader { _p: u8 }

// BTreeMap<K, Vec<RecordHeader>> iteration lowered to its entry sequence (sorted, distinct keys): here only lengths matter
pub struct Entry { pub k: KeyBytes, pub n: usize }   // n = v.len()

pub open spec fn sum_sizes(e: Seq<Entry>, upto: int, rhs: int) -> int
    decreases upto
{
    if upto <= 0 { 0 } else { sum_sizes(e, upto - 1, rhs) + e[upto - 1].n as int * rhs }
}

pub struct LeafRef { pub key_idx: usize, pub off: u64 }   // (min_k, min_o) ; key kept as index into entries for the spec

// leaf packing invariant we want:
//  L1 every leaf offset == sum of sizes of entries before its first key (leaf starts at a key boundary)
//  L2 for every entry i belonging to leaf j: (start(i) - leaf_off(j)) + rhs <= BLOCK_SIZE  (first header of each key inside first block)
//  L3 leaves' first keys strictly increasing in entry index; first leaf starts at entry 0
pub open spec fn start_of(e: Seq<Entry>, i: int, rhs: int) -> int { sum_sizes(e, i, rhs) }

pub open spec fn leaf_of(leaves: Seq<LeafRef>, i: int) -> int
    decreases leaves.len()
{
    // index of last leaf whose key_idx <= i
    if leaves.len() == 0 { -1 }
    else if leaves.last().key_idx as int <= i { leaves.len() - 1 }
    else { leaf_of(leaves.drop_last(), i) }
}

pub open spec fn packing_ok(e: Seq<Entry>, leaves: Seq<LeafRef>, upto: int, rhs: int) -> bool {
    &&& leaves.len() >= 1
    &&& leaves[0].key_idx == 0
    &&& forall|j: int| 0 <= j < leaves.len() ==> 0 <= #[trigger] leaves[j].key_idx < e.len() && leaves[j].off as int == start_of(e, leaves[j].key_idx as int, rhs)
    &&& forall|j: int, k: int| 0 <= j < k < leaves.len() ==> leaves[j].key_idx < leaves[k].key_idx
    &&& forall|i: int| 0 <= i < upto ==> {
            let j = leaf_of(leaves, i);
            0 <= j < leaves.len() && #[trigger] start_of(e, i, rhs) - leaves[j].off as int + rhs <= BLOCK_SIZE as int
        }
}

proof fn lemma_sum_step(e: Seq<Entry>, i: int, rhs: int)
    requires 0 <= i < e.len(), rhs >= 0
    ensures sum_sizes(e, i + 1, rhs) == sum_sizes(e, i, rhs) + e[i].n as int * rhs,
            sum_sizes(e, i, rhs) >= 0
    decreases i
{
    if i > 0 { lemma_sum_step(e, i - 1, rhs); 
       assert(e[i-1].n as int * rhs >= 0) by (nonlinear_arith) requires e[i-1].n as int >= 0, rhs >= 0; }
}


// lowered body of HeaderStage::serialize_bptree's packing loop (keys tracked by entry index for this feasibility test)
fn pack(entries: &Vec<Entry>, record_header_size: u64) -> (leaf_nodes_compressed: Vec<LeafRef>)
    requires
        entries.len() >= 1,
        1 <= record_header_size <= BLOCK_SIZE as u64,
        sum_sizes(entries@, entries.len() as int, record_header_size as int) < 0x7fff_ffff_ffff_ffff,
        forall|i: int| 0 <= i < entries.len() ==> entries@[i].n >= 1,
    ensures
        packing_ok(entries@, leaf_nodes_compressed@, entries.len() as int, record_header_size as int),
{
    let ghost rhs = record_header_size as int;
    let ghost e = entries@;
    let mut leaf_nodes_compressed: Vec<LeafRef> = Vec::new();
    let mut offset: u64 = 0;
    let mut remainder = BLOCK_SIZE as u64;
    let mut min_k: usize = 0;
    let mut min_o = offset;
    let mut idx: usize = 0;
    proof { lemma_sum_mono(e, 0, entries.len() as int, rhs); }
    while idx < entries.len()
        invariant
            e == entries@, rhs == record_header_size as int, 1 <= rhs <= BLOCK_SIZE as int,
            idx <= entries.len(),
            sum_sizes(e, e.len() as int, rhs) < 0x7fff_ffff_ffff_ffff,
            forall|i: int| 0 <= i < e.len() ==> e[i].n >= 1,
            offset as int == start_of(e, idx as int, rhs),
            min_k as int <= idx as int, (idx > 0 ==> (min_k as int) < idx as int), (min_k as int) < e.len(),
            min_o as int == start_of(e, min_k as int, rhs),
            min_o <= offset,
            remainder as int == if (offset - min_o) as int >= BLOCK_SIZE as int { 0 } else { BLOCK_SIZE as int - (offset - min_o) as int },
            // closed leaves
            forall|j: int| 0 <= j < leaf_nodes_compressed@.len() ==> 0 <= #[trigger] leaf_nodes_compressed@[j].key_idx < e.len()
                 && leaf_nodes_compressed@[j].off as int == start_of(e, leaf_nodes_compressed@[j].key_idx as int, rhs)
                 && (leaf_nodes_compressed@[j].key_idx as int) < min_k as int,
            forall|j: int, k: int| 0 <= j < k < leaf_nodes_compressed@.len() ==> leaf_nodes_compressed@[j].key_idx < leaf_nodes_compressed@[k].key_idx,
            leaf_nodes_compressed@.len() == 0 ==> min_k == 0,
            leaf_nodes_compressed@.len() > 0 ==> leaf_nodes_compressed@[0].key_idx == 0,
            // block property for processed entries: in closed leaves or the open one
            forall|i: int| 0 <= i < idx ==> {
                let lv = leaf_nodes_compressed@.push(LeafRef { key_idx: min_k, off: min_o });
                let j = leaf_of(lv, i);
                0 <= j < lv.len() && #[trigger] start_of(e, i, rhs) - lv[j].off as int + rhs <= BLOCK_SIZE as int
            },
        decreases entries.len() - idx
    {
        let v_len = entries[idx].n;
        proof { lemma_sum_step(e, idx as int, rhs); lemma_sum_mono(e, idx as int + 1, e.len() as int, rhs); }
        let ghost old_leaves = leaf_nodes_compressed@;
        let ghost old_min_k = min_k; let ghost old_min_o = min_o;
        if remainder < record_header_size {
            leaf_nodes_compressed.push(LeafRef { key_idx: min_k, off: min_o });
            min_k = idx;
            min_o = offset;
            remainder = BLOCK_SIZE as u64;
        }
        assert(v_len as int * rhs >= rhs) by (nonlinear_arith) requires v_len as int >= 1, rhs >= 1;
        let delta_size = v_len as u64 * record_header_size;
        offset += delta_size;
        remainder = remainder.saturating_sub(delta_size);
        proof {
            let lv_new = leaf_nodes_compressed@.push(LeafRef { key_idx: min_k, off: min_o });
            let lv_old = old_leaves.push(LeafRef { key_idx: old_min_k, off: old_min_o });
            assert forall|i: int| 0 <= i < idx + 1 implies ({
                let j = leaf_of(lv_new, i);
                0 <= j < lv_new.len() && #[trigger] start_of(e, i, rhs) - lv_new[j].off as int + rhs <= BLOCK_SIZE as int }) by {
                if min_k == idx && old_leaves.len() != leaf_nodes_compressed@.len() {
                    // new leaf opened: lv_new = lv_old.push(new)
                    assert(lv_new.drop_last() =~= lv_old);
                    if i < idx { } else { }
                } else {
                    assert(lv_new =~= lv_old);
                    if i < idx { } else { assert(lv_new.drop_last() =~= old_leaves); }
                }
            }
        }
        idx += 1;
    }
    leaf_nodes_compressed.push(LeafRef { key_idx: min_k, off: min_o });
    leaf_nodes_compressed
}

proof fn lemma_sum_mono(e: Seq<Entry>, a: int, b: int, rhs: int)
    requires 0 <= a <= b <= e.len(), rhs >= 0
    ensures sum_sizes(e, a, rhs) <= sum_sizes(e, b, rhs), sum_sizes(e, a, rhs) >= 0
    decreases b - a
{
    if a < b { lemma_sum_mono(e, a, b - 1, rhs); lemma_sum_step(e, b - 1, rhs);
       assert(e[b-1].n as int * rhs >= 0) by (nonlinear_arith) requires e[b-1].n as int >= 0, rhs >= 0; }
    else { if a > 0 { lemma_sum_step(e, a - 1, rhs); } }
}
}
fn main() {}
