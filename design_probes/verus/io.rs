use vstd::prelude::*;
verus! {

pub struct VErr { pub class: u8 }

pub enum IoEvent { Append(Seq<u8>), WriteAt(int, Seq<u8>), Sync }

#[verifier::external_body]
pub struct File { _p: u8 }
impl File {
    pub uninterp spec fn content(&self) -> Seq<u8>;
    pub uninterp spec fn size_spec(&self) -> int;      // reserved size counter
    pub uninterp spec fn synced(&self) -> int;
    pub uninterp spec fn trace(&self) -> Seq<IoEvent>;

    #[verifier::external_body]
    pub fn size(&self) -> (r: u64) ensures r as int == self.size_spec() { unimplemented!() }

    // assumed contract: may fail; on failure the size counter has still advanced (reserve-then-write)
    #[verifier::external_body]
    pub fn write_append_all(&mut self, buf: &Vec<u8>) -> (r: Result<(), VErr>)
        ensures
            final(self).size_spec() == old(self).size_spec() + buf@.len(),
            final(self).synced() == old(self).synced(),
            r.is_ok() ==> final(self).trace() == old(self).trace().push(IoEvent::Append(buf@)),
            r.is_err() ==> final(self).trace() == old(self).trace(),
    { unimplemented!() }

    #[verifier::external_body]
    pub fn fsyncdata(&mut self) -> (r: Result<(), VErr>)
        ensures
            final(self).size_spec() == old(self).size_spec(),
            r.is_ok() ==> final(self).synced() >= old(self).size_spec() && final(self).trace() == old(self).trace().push(IoEvent::Sync),
            r.is_err() ==> final(self).synced() == old(self).synced() && final(self).trace() == old(self).trace(),
    { unimplemented!() }
}

pub struct Index { pub on_disk: bool }
impl Index {
    #[verifier::external_body]
    pub fn dump(&mut self, blob_size: u64) -> (r: Result<usize, VErr>) { unimplemented!() }
    pub fn on_disk(&self) -> bool { self.on_disk }
}

pub struct Blob { pub file: File, pub index: Index, pub header_bytes: Vec<u8> }

impl Blob {
    // lowered Blob::write_header (serialize_into replaced by the prelude's header bytes)
    fn write_header(&mut self) -> (r: Result<(), VErr>)
        ensures r.is_ok() ==> final(self).file.trace() == old(self).file.trace().push(IoEvent::Append(old(self).header_bytes@)).push(IoEvent::Sync)
                && final(self).file.synced() >= final(self).file.size_spec(),
    {
        self.file.write_append_all(&self.header_bytes)?;
        self.file.fsyncdata()?;
        Ok(())
    }

    fn fsyncdata(&mut self) -> (r: Result<(), VErr>)
        ensures final(self).file.size_spec() == old(self).file.size_spec(),
                r.is_ok() ==> final(self).file.synced() >= old(self).file.size_spec(),
                final(self).index == old(self).index,
    { self.file.fsyncdata() }

    fn file_size(&self) -> (r: u64) ensures r as int == self.file.size_spec() { self.file.size() }

    // lowered Blob::dump with the C12 call-site obligation spliced before the index dump
    fn dump(&mut self) -> (r: Result<usize, VErr>)
    {
        if self.index.on_disk() {
            Ok(0)
        } else {
            self.fsyncdata()?;
            assert(self.file.synced() >= self.file.size_spec());   // C12: blob bytes synced before the index describes them
            self.index.dump(self.file_size())
        }
    }
}
}
fn main() {}
