use vstd::prelude::*;
verus! {
pub assume_specification<T>[std::mem::replace::<T>](dest: &mut T, src: T) -> (r: T)
    ensures *final(dest) == src, r == *old(dest);
pub type ChildId = usize;
pub struct Leaf<T> { pub parent: usize, pub data: T }
pub struct HierarchicalFilters<Child> {
    pub children: Vec<Option<Leaf<Child>>>,
    pub group_size: usize,
}
impl<Child> HierarchicalFilters<Child> {
    pub open spec fn live(&self) -> Seq<int> {
        Seq::new(self.children@.len(), |i: int| i).filter(|i: int| self.children@[i].is_some())
    }

    /// Remove last child from collection
    pub fn pop(&mut self) -> (r: Option<Child>)
        ensures
            final(self).children@.len() == old(self).children@.len(),
            match r {
                None => final(self).children@ == old(self).children@ && (forall|i: int| 0 <= i < old(self).children@.len() ==> old(self).children@[i].is_none()),
                Some(c) => exists|k: int| 0 <= k < old(self).children@.len()
                    && old(self).children@[k].is_some() && old(self).children@[k].unwrap().data == c
                    && (forall|i: int| k < i < old(self).children@.len() ==> old(self).children@[i].is_none())
                    && final(self).children@ == old(self).children@.update(k, None),
            }
    {
        let mut last = self.children.len().checked_sub(1)?;
        loop
            invariant_except_break
                self.children@ == old(self).children@,
                last < self.children@.len(),
                forall|i: int| last < i < self.children@.len() ==> self.children@[i].is_none(),
            ensures
                self.children@ == old(self).children@,
                last < self.children@.len(),
                forall|i: int| last < i < self.children@.len() ==> self.children@[i].is_none(),
                self.children@[last as int].is_some(),
            decreases last
        {
            match self.children.get(last) {
                Some(None) => {
                    last = last.checked_sub(1)?;
                }
                _ => { break; }
            }
        }
        assert(self.children@[last as int].is_some());
        let r = self.remove(last);
        assert(final(self).children@ == old(self).children@.update(last as int, None));
        r
    }

    /// Remove child by id
    pub fn remove(&mut self, id: ChildId) -> (r: Option<Child>)
        ensures
            id >= old(self).children@.len() ==> r.is_none() && final(self).children@ == old(self).children@,
            id < old(self).children@.len() ==> final(self).children@ == old(self).children@.update(id as int, None)
               && (match old(self).children@[id as int] { Some(l) => r == Some(l.data), None => r.is_none() }),
    {
        if let Some(child) = self.children.get_mut(id) {
            let child = std::mem::replace(child, None);
            match child { Some(x) => Some(x.data), None => None }
        } else {
            None
        }
    }
    pub fn len(&self) -> usize {
        self.children.len()
    }
}
}
fn main() {}
