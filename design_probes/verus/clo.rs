use vstd::prelude::*;
use std::cmp::Ordering;
verus! {
pub assume_specification<T>[<[T]>::reverse](s: &mut [T])
    ensures final(s)@ == old(s)@.reverse();

fn t1(a: u64, b: u64) -> (o: Ordering)
    ensures (o == Ordering::Less) == (a < b), (o == Ordering::Equal) == (a == b)
{
    a.cmp(&b)
}

fn apply<F: Fn(u64) -> Ordering>(f: F, x: u64) -> (o: Ordering)
    requires f.requires((x,))
    ensures f.ensures((x,), o)
{ f(x) }

fn t2(t: u64, x: u64) -> (o: Ordering)
    ensures (o == Ordering::Less) == (x < t)
{
    let f = |item: u64| -> (o: Ordering) ensures (o == Ordering::Less) == (item < t), { item.cmp(&t) };
    apply(f, x)
}

fn t3(v: &mut Vec<u64>)
    requires old(v).len() > 2
{
    v.truncate(2);
    assert(v@ == old(v)@.subrange(0, 2));
    v.reverse();
    assert(v@ == old(v)@.subrange(0,2).reverse());
    let l = v.last();
}

fn t4(buf: &[u8], a: usize, b: usize) -> (r: &[u8])
    requires a <= b <= buf.len()
    ensures r@ == buf@.subrange(a as int, b as int)
{
    &buf[a..b]
}

fn t6(a: usize, b: usize) -> usize { a.saturating_sub(b) }
fn t7(a: usize, b: usize) -> usize { a.min(b) }
}
fn main() {}
