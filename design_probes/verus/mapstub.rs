use vstd::prelude::*;
verus! {

#[verifier::external_body]
pub struct MapStub { _p: u8 }

impl MapStub {
    pub uninterp spec fn view(&self) -> Map<u64, Seq<u64>>;

    #[verifier::external_body]
    pub fn get_mut(&mut self, k: &u64) -> (r: Option<&mut Vec<u64>>)
        ensures
            match r {
                Some(v) => old(self)@.contains_key(*k) && (*v)@ == old(self)@[*k]
                           && final(self)@ == old(self)@.insert(*k, (*final(v))@),
                None => !old(self)@.contains_key(*k) && final(self)@ == old(self)@,
            }
    { unimplemented!() }

    #[verifier::external_body]
    pub fn insert(&mut self, k: u64, v: Vec<u64>)
        ensures final(self)@ == old(self)@.insert(k, v@)
    { unimplemented!() }
}

// shape of IndexStruct::push's map part
fn push_like(m: &mut MapStub, key: &u64, h: u64)
    ensures
        old(m)@.contains_key(*key) ==> final(m)@ == old(m)@.insert(*key, old(m)@[*key].push(h)),
        !old(m)@.contains_key(*key) ==> final(m)@[*key] =~= seq![h] && final(m)@ =~= old(m)@.insert(*key, final(m)@[*key]),
{
    if let Some(v) = m.get_mut(key) {
        v.push(h);
    } else {
        let v = vec![h];
        m.insert(*key, v);
    }
}
}
fn main() {}
