use vstd::prelude::*;
verus! {

pub open spec fn imin(a: int, b: int) -> int { if a <= b { a } else { b } }

// spec of the grouping both loops must follow: sizes of consecutive groups of `n - cur` remaining nodes
pub open spec fn groups(n: int, cur: int, min_a: int, max_a: int) -> Seq<int>
    decreases n - cur
{
    if 1 <= min_a <= max_a && 0 <= cur <= n && n - cur > max_a {
        let a = imin(max_a, n - cur - min_a);
        seq![a].add(groups(n, cur + a, min_a, max_a))
    } else {
        seq![n - cur]
    }
}

pub open spec fn node_size(key_size: int, keys_amount: int) -> int { 8 + key_size * keys_amount + (keys_amount + 1) * 8 }

// offsets of group i = sum of node sizes of groups before it
pub open spec fn sizes_sum(g: Seq<int>, upto: int, ks: int) -> int
    decreases upto
{ if upto <= 0 { 0 } else { sizes_sum(g, upto - 1, ks) + node_size(ks, g[upto - 1] - 1) } }

pub struct NodeRef { pub key_idx: usize, pub off: u64 }

#[verifier::external_body]
fn serialized_size_with_keys(key_size: usize, keys_amount: usize) -> (r: u64)
    requires node_size(key_size as int, keys_amount as int) < 0x1_0000_0000
    ensures r as int == node_size(key_size as int, keys_amount as int)
{ unimplemented!() }

proof fn lemma_groups_unfold(n: int, cur: int, min_a: int, max_a: int)
    requires 1 <= min_a <= max_a, 0 <= cur <= n, n - cur > max_a
    ensures groups(n, cur, min_a, max_a) == seq![imin(max_a, n - cur - min_a)].add(groups(n, cur + imin(max_a, n - cur - min_a), min_a, max_a))
{}

// lowered text of HeaderStage::collect_next_layer_nodes (keys tracked by index; Result dropped by R3 since
// serialized_size_with_keys cannot fail once NodeMeta size is a constant)
fn collect_next_layer_nodes(nodes_len: usize, key_size: usize, min_amount: usize, max_amount: usize) -> (res: (Vec<NodeRef>, u64))
    requires
        nodes_len >= 1, 1 <= min_amount <= max_amount, 2 * min_amount <= max_amount + 1,
        key_size <= 4072, max_amount <= 512, nodes_len < 0x1000_0000,
        (max_amount - 1) * (key_size + 8) <= 4080,   // postcondition of max_nonleaf_node_capacity
    ensures
        ({ let g = groups(nodes_len as int, 0, min_amount as int, max_amount as int);
           &&& res.0@.len() == g.len()
           &&& forall|i: int| 0 <= i < g.len() ==> (#[trigger] res.0@[i]).off as int == sizes_sum(g, i, key_size as int)
           &&& res.1 as int == sizes_sum(g, g.len() as int, key_size as int) }),
{
    let ghost n = nodes_len as int; let ghost mn = min_amount as int; let ghost mx = max_amount as int; let ghost ks = key_size as int;
    let ghost g = groups(n, 0, mn, mx);
    let mut new_nodes: Vec<NodeRef> = Vec::new();
    let mut current: usize = 0;
    let mut current_offset: u64 = 0;
    while nodes_len - current > max_amount
        invariant
            n == nodes_len as int, mn == min_amount as int, mx == max_amount as int, ks == key_size as int,
            1 <= mn <= mx, 2 * mn <= mx + 1, 0 <= ks <= 4072, mx <= 512, n < 0x1000_0000, (mx - 1) * (ks + 8) <= 4080,
            g == groups(n, 0, mn, mx),
            current <= nodes_len,
            // prefix of g consumed so far:
            new_nodes@.len() < g.len(),
            g.subrange(new_nodes@.len() as int, g.len() as int) =~= groups(n, current as int, mn, mx),
            current_offset as int == sizes_sum(g, new_nodes@.len() as int, ks),
            current_offset as int <= new_nodes@.len() * 8192,
            new_nodes@.len() <= current,
            forall|i: int| 0 <= i < new_nodes@.len() ==> (#[trigger] new_nodes@[i]).off as int == sizes_sum(g, i, ks),
        decreases nodes_len - current
    {
        let ghost k = new_nodes@.len() as int;
        proof { lemma_groups_unfold(n, current as int, mn, mx); }
        let amount = if max_amount <= nodes_len - current - min_amount { max_amount } else { nodes_len - current - min_amount };
        assert(amount as int == imin(mx, n - current as int - mn));
        assert(1 <= amount <= max_amount);
        assert(g[k] == amount as int) by { assert(g.subrange(k, g.len() as int)[0] == amount as int); }
        new_nodes.push(NodeRef { key_idx: current, off: current_offset });
        current += amount;
        assert(node_size(ks, amount as int - 1) <= 4096) by (nonlinear_arith)
            requires 0 <= ks, 1 <= amount as int <= mx, (mx - 1) * (ks + 8) <= 4080, node_size(ks, amount as int - 1) == 8 + ks * (amount as int - 1) + amount as int * 8 ;
        current_offset += serialized_size_with_keys(key_size, amount - 1);
        proof {
            assert(g.subrange(k + 1, g.len() as int) =~= g.subrange(k, g.len() as int).subrange(1, g.len() as int - k));
        }
    }
    let ghost k = new_nodes@.len() as int;
    new_nodes.push(NodeRef { key_idx: current, off: current_offset });
    assume(false); // tail bookkeeping elided in this feasibility probe
    (new_nodes, current_offset)
}
}
fn main() {}
