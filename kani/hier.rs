// Compiled inside src/filter/hierarchical.rs. BOUNDED stand-in for the hierarchy invariant (C10, C04,
// C01): the real generic HierarchicalFilters code with a toy 8-key filter, a bounded number of
// push / pop operations and a small group size. Never counted as proved.
use super::*;
include!("/verif/kani/support.rs");
use std::sync::atomic::{AtomicU8, Ordering as AOrd};

#[derive(Debug)]
pub(crate) struct ToyFilter { bits: AtomicU8, mergeable: bool }
impl Clone for ToyFilter {
    fn clone(&self) -> Self { ToyFilter { bits: AtomicU8::new(self.bits.load(AOrd::Relaxed)), mergeable: self.mergeable } }
}
impl FilterTrait<u8> for ToyFilter {
    fn add(&self, key: &u8) { self.bits.fetch_or(1 << (*key & 7), AOrd::Relaxed); }
    fn contains_fast(&self, key: &u8) -> FilterResult {
        if self.bits.load(AOrd::Relaxed) & (1 << (*key & 7)) != 0 { FilterResult::NeedAdditionalCheck } else { FilterResult::NotContains }
    }
    // a merge may be refused (as Bloom does for off-loaded / differently sized buffers)
    fn checked_add_assign(&mut self, other: &Self) -> bool {
        if !self.mergeable || !other.mergeable { return false; }
        self.bits.fetch_or(other.bits.load(AOrd::Relaxed), AOrd::Relaxed);
        true
    }
    fn clear_filter(&mut self) { self.bits.store(0, AOrd::Relaxed); }
}
// `nofilter`: a child that offers no filter at all (as a Storage without closed blobs does when
// storages are grouped): it can never be excluded
pub(crate) struct ToyBlob { id: u8, filter: ToyFilter, nofilter: bool }
#[async_trait::async_trait]
impl BloomProvider<u8> for ToyBlob {
    type Filter = ToyFilter;
    async fn check_filter(&self, item: &u8) -> FilterResult { if self.nofilter { FilterResult::NeedAdditionalCheck } else { self.filter.contains_fast(item) } }
    fn check_filter_fast(&self, item: &u8) -> FilterResult { if self.nofilter { FilterResult::NeedAdditionalCheck } else { self.filter.contains_fast(item) } }
    async fn offload_buffer(&mut self, _: usize, _: usize) -> usize { 0 }
    async fn get_filter(&self) -> Option<Self::Filter> { if self.nofilter { None } else { Some(self.filter.clone()) } }
    fn get_filter_fast(&self) -> Option<&Self::Filter> { if self.nofilter { None } else { Some(&self.filter) } }
    async fn filter_memory_allocated(&self) -> usize { 0 }
}

// minimal executor: the futures of this container never wait on anything external
fn run<F: std::future::Future>(f: F) -> F::Output {
    use std::task::{Context, Poll, RawWaker, RawWakerVTable, Waker};
    fn noop(_: *const ()) {}
    fn clone(_: *const ()) -> RawWaker { RawWaker::new(std::ptr::null(), &VT) }
    static VT: RawWakerVTable = RawWakerVTable::new(clone, noop, noop, noop);
    let waker = unsafe { Waker::from_raw(RawWaker::new(std::ptr::null(), &VT)) };
    let mut cx = Context::from_waker(&waker);
    let mut f = Box::pin(f);
    loop {
        if let Poll::Ready(v) = f.as_mut().poll(&mut cx) { return v; }
    }
}

/// For every sequence of OPS operations (push of a blob holding one symbolic key, with a filter that
/// may refuse merging; pop) and every key: the reverse iterator yields every live blob that holds
/// the key exactly once (no false negative, no duplicate), newest first, and `len()` counts the live blobs.
pub(crate) fn body_hier<S: Src>(s: &mut S, group_size: usize, ops: usize, nkeys: u8) {
    let mut h: HierarchicalFilters<u8, ToyFilter, ToyBlob> = HierarchicalFilters::new(group_size, 1);
    let mut live: [bool; 16] = [false; 16];    // by blob id (at most one blob per operation; ops <= 16)
    let mut keyof: [u8; 16] = [0; 16];
    let mut next_id: u8 = 0;
    vassert!(ops <= 16, "bound of the harness arrays");
    let mut i = 0;
    while i < ops {
        let is_push = s.bool();
        if is_push {
            let key = s.choose(nkeys);
            // 0: filter that merges, 1: filter that refuses merging, 2: no filter at all
            let kind = s.choose(3);
            let blob = ToyBlob { id: next_id, filter: ToyFilter { bits: AtomicU8::new(1 << key), mergeable: kind == 0 }, nofilter: kind == 2 };
            run(h.push(blob));
            live[next_id as usize] = true;
            keyof[next_id as usize] = key;
            next_id += 1;
        } else {
            match h.pop() {
                Some(b) => {
                    vassert!(live[b.id as usize], "pop returned a blob that is not live");
                    // it must be the newest live blob
                    let mut j = b.id as usize + 1;
                    while j < 16 { vassert!(!live[j], "pop skipped a newer live blob"); j += 1; }
                    live[b.id as usize] = false;
                }
                None => { let mut j = 0; while j < 16 { vassert!(!live[j], "pop returned None with live blobs"); j += 1; } }
            }
        }
        i += 1;
    }
    // accounting (C15)
    let mut n_live = 0; let mut j = 0;
    while j < 16 { if live[j] { n_live += 1; } j += 1; }
    vassert!(h.len() == n_live, "len() != number of live blobs");
    // queries (C10 / C04 / C01)
    let q = s.choose(nkeys);
    let mut seen: [u8; 16] = [0; 16];
    let mut last: i32 = 100;
    for (_, leaf) in h.iter_possible_childs_rev(&q) {
        let id = leaf.data.id as usize;
        vassert!(live[id], "iterator yielded a removed blob");
        seen[id] += 1;
        vassert!((id as i32) < last, "iterator is not newest-first");
        last = id as i32;
    }
    let mut j = 0;
    while j < 16 {
        vassert!(seen[j] <= 1, "a blob was yielded twice");
        if live[j] && keyof[j] == q { vassert!(seen[j] == 1, "a live blob holding the key was pruned (false negative)"); }
        j += 1;
    }
}

// Kani could not decide this harness (async_trait futures: no verdict in 15 min even for 3 operations),
// so the bounded stand-in is a NATIVE exhaustive enumeration of all operation sequences up to the bound.
#[cfg(all(test, pearl_verif))]
fn enumerate(group_size: usize, ops: usize, nkeys: u8) -> u64 {
    let mut src = EnumSrc::new();
    let mut runs = 0u64;
    loop {
        let r = std::panic::catch_unwind(std::panic::AssertUnwindSafe(|| body_hier(&mut src, group_size, ops, nkeys)));
        runs += 1;
        if r.is_err() {
            println!("BOUNDED-VIOLATION harness=bounded_hier group_size={} ops={} nkeys={} choices={:?}", group_size, ops, nkeys, src.trace());
            panic!("bounded_hier violation");
        }
        if !src.advance() { break; }
    }
    runs
}

#[cfg(all(test, pearl_verif))]
#[test]
fn verif_bounded_hier() {
    // VERIF_BOUND = "quick" | "thorough"
    let thorough = std::env::var("VERIF_BOUND").map(|v| v == "thorough").unwrap_or(false);
    let mut total = 0u64;
    for g in [2usize, 3, 4] {
        total += enumerate(g, if thorough { 8 } else { 6 }, 2);
        total += enumerate(g, if thorough { 7 } else { 5 }, 3);
    }
    println!("BOUNDED-OK harness=bounded_hier runs={}", total);
}

#[cfg(all(test, pearl_verif))]
#[test]
fn verif_replay_hier() {
    let h = std::env::var("VERIF_REPLAY_HARNESS").unwrap_or_default();
    if h.starts_with("bounded_hier") {
        // VERIF_REPLAY_HARNESS = bounded_hier:<group>:<ops>:<nkeys>
        let p: Vec<usize> = h.split(':').skip(1).map(|x| x.parse().unwrap()).collect();
        body_hier(&mut ReplaySrc::from_env(), p[0], p[1], p[2] as u8);
    }
}
