// Compiled inside src/blob/index/header.rs
use super::*;
include!("/verif/kani/support.rs");

/// C17: bincode bytes of IndexHeader == frozen layout
///  magic u64 | records_count u64 | record_header_size u64 | meta_size u64 | hash: u64 len (=32) + 32 bytes |
///  version u8 (bit0 = written, bits1..7 = version) | key_size u16 | blob_size u64   => 83 bytes, all little endian
pub(crate) fn body_layout_index_header<S: Src>(s: &mut S) {
    let mut hash = vec![0u8; IndexHashCalculator::HASH_LENGTH];
    let mut i = 0;
    while i < 32 { hash[i] = s.u8(); i += 1; }
    let h = IndexHeader {
        magic_byte: s.u64(), records_count: s.usize(), record_header_size: s.usize(), meta_size: s.usize(),
        hash, version: s.u8(), key_size: s.u16(), blob_size: s.u64(),
    };
    let b = match bincode::serialize(&h) { Ok(b) => b, Err(_) => { vassert!(false, "serialize failed"); return; } };
    vassert!(b.len() == 83, "index header is {} bytes", b.len());
    let f0 = h.magic_byte.to_le_bytes();
    let f1 = (h.records_count as u64).to_le_bytes();
    let f2 = (h.record_header_size as u64).to_le_bytes();
    let f3 = (h.meta_size as u64).to_le_bytes();
    let f4 = 32u64.to_le_bytes();
    let f7 = h.blob_size.to_le_bytes();
    let mut i = 0;
    while i < 8 {
        vassert!(b[i] == f0[i], "magic {}", i);
        vassert!(b[8 + i] == f1[i], "records_count {}", i);
        vassert!(b[16 + i] == f2[i], "record_header_size {}", i);
        vassert!(b[24 + i] == f3[i], "meta_size {}", i);
        vassert!(b[32 + i] == f4[i], "hash len {}", i);
        vassert!(b[75 + i] == f7[i], "blob_size {}", i);
        i += 1;
    }
    let mut i = 0;
    while i < 32 { vassert!(b[40 + i] == h.hash[i], "hash {}", i); i += 1; }
    vassert!(b[72] == h.version, "version byte");
    let ks = h.key_size.to_le_bytes();
    vassert!(b[73] == ks[0] && b[74] == ks[1], "key_size");
    // the default header: current format version, magic, zero hash of HASH_LENGTH
    vassert!(HEADER_VERSION == 6 && INDEX_HEADER_MAGIC_BYTE == 0xacdc_bcde && IndexHashCalculator::HASH_LENGTH == 32, "constants");
}

#[cfg(kani)]
#[kani::proof]
#[kani::unwind(34)]
fn check_layout_index_header() { body_layout_index_header(&mut KaniSrc); }

/// the written bit and the version share one byte and never interfere (all 256 x 2 x 128 cases)
pub(crate) fn body_written_bit<S: Src>(s: &mut S) {
    let mut h = IndexHeader::default();
    h.version = s.u8();
    let v0 = h.version();
    let st = s.bool();
    h.set_written(st);
    vassert!(h.is_written() == st, "written bit");
    vassert!(h.version() == v0, "version preserved by set_written");
    let nv = s.u8() & 0x7f;
    h.set_version(nv);
    vassert!(h.version() == nv && h.is_written() == st, "set_version keeps written bit");
}

#[cfg(kani)]
#[kani::proof]
#[kani::unwind(34)]
fn check_written_bit() { body_written_bit(&mut KaniSrc); }

#[cfg(all(test, pearl_verif))]
#[test]
fn verif_replay_layout_index_header() {
    let h = std::env::var("VERIF_REPLAY_HARNESS").unwrap_or_default();
    if h == "check_layout_index_header" { body_layout_index_header(&mut ReplaySrc::from_env()); }
    if h == "check_written_bit" { body_written_bit(&mut ReplaySrc::from_env()); }
}
