// Compiled inside src/record/record.rs
use super::*;
include!("/verif/kani/support.rs");

/// C17/C05: bincode bytes of record::Header == frozen layout
///  magic u64 | key: u64 len + bytes | meta_size u64 | data_size u64 | flags u8 | blob_offset u64 | timestamp u64 |
///  data_checksum u32 | header_checksum u32      => 57 + key length bytes; blob_offset at len-24, checksum at len-4
/// BOUNDED in the key length (harnesses for key lengths 1, 4 and 8): the code path is the same loop for longer keys.
pub(crate) fn body_layout_record_header<S: Src>(s: &mut S, klen: usize) {
    let mut key = vec![0u8; klen];
    let mut i = 0;
    while i < klen { key[i] = s.u8(); i += 1; }
    let h = Header {
        magic_byte: s.u64(), key, meta_size: s.u64(), data_size: s.u64(), flags: s.u8(), blob_offset: s.u64(),
        timestamp: s.u64(), data_checksum: s.u32(), header_checksum: s.u32(),
    };
    let b = match bincode::serialize(&h) { Ok(b) => b, Err(_) => { vassert!(false, "serialize failed"); return; } };
    vassert!(b.len() == 57 + klen, "record header is {} bytes for key length {}", b.len(), klen);
    let n = b.len();
    let f0 = h.magic_byte.to_le_bytes();
    let fk = (klen as u64).to_le_bytes();
    let fm = h.meta_size.to_le_bytes();
    let fd = h.data_size.to_le_bytes();
    let fo = h.blob_offset.to_le_bytes();
    let ft = h.timestamp.to_le_bytes();
    let mut i = 0;
    while i < 8 {
        vassert!(b[i] == f0[i], "magic {}", i);
        vassert!(b[8 + i] == fk[i], "key len {}", i);
        vassert!(b[16 + klen + i] == fm[i], "meta_size {}", i);
        vassert!(b[24 + klen + i] == fd[i], "data_size {}", i);
        vassert!(b[33 + klen + i] == fo[i], "blob_offset {}", i);
        vassert!(b[41 + klen + i] == ft[i], "timestamp {}", i);
        i += 1;
    }
    let mut i = 0;
    while i < klen { vassert!(b[16 + i] == h.key[i], "key {}", i); i += 1; }
    vassert!(b[32 + klen] == h.flags, "flags");
    let dc = h.data_checksum.to_le_bytes();
    let hc = h.header_checksum.to_le_bytes();
    let mut i = 0;
    while i < 4 { vassert!(b[49 + klen + i] == dc[i], "data_checksum {}", i); vassert!(b[53 + klen + i] == hc[i], "header_checksum {}", i); i += 1; }
    // positions patched by PartiallySerializedRecord::finalize_with_checksum
    vassert!(Header::blob_offset_offset(n) == 33 + klen, "blob_offset_offset");
    vassert!(Header::checksum_offset(n) == 53 + klen, "checksum_offset");
    vassert!(RECORD_MAGIC_BYTE == 0xacdc_bcde && DELETE_FLAG == 1 && MAX_SINGLE_PASS_DATA_SIZE == 4096, "constants");
}

#[cfg(kani)]
#[kani::proof]
#[kani::unwind(12)]
fn check_layout_record_header_k1() { body_layout_record_header(&mut KaniSrc, 1); }
#[cfg(kani)]
#[kani::proof]
#[kani::unwind(12)]
fn check_layout_record_header_k4() { body_layout_record_header(&mut KaniSrc, 4); }
#[cfg(kani)]
#[kani::proof]
#[kani::unwind(12)]
fn check_layout_record_header_k8() { body_layout_record_header(&mut KaniSrc, 8); }

#[cfg(all(test, pearl_verif))]
#[test]
fn verif_replay_layout_record_header() {
    let h = std::env::var("VERIF_REPLAY_HARNESS").unwrap_or_default();
    if h == "check_layout_record_header_k1" { body_layout_record_header(&mut ReplaySrc::from_env(), 1); }
    if h == "check_layout_record_header_k4" { body_layout_record_header(&mut ReplaySrc::from_env(), 4); }
    if h == "check_layout_record_header_k8" { body_layout_record_header(&mut ReplaySrc::from_env(), 8); }
}
