// Input source shared by every harness module (textually included). Under cfg(kani) values are
// symbolic; under cfg(pearl_verif) they are the bytes Kani printed with --concrete-playback=print,
// consumed in the same order, so a counterexample is replayed against the real function by an
// ordinary `cargo test` build.
#[allow(dead_code)]
pub(crate) trait Src {
    fn u8(&mut self) -> u8;
    fn u16(&mut self) -> u16;
    fn u32(&mut self) -> u32;
    fn u64(&mut self) -> u64;
    fn usize(&mut self) -> usize { self.u64() as usize }
    fn bool(&mut self) -> bool;
    /// a value in 0..n (n <= 255)
    fn choose(&mut self, n: u8) -> u8;
}

#[cfg(kani)]
pub(crate) struct KaniSrc;
#[cfg(kani)]
impl Src for KaniSrc {
    fn u8(&mut self) -> u8 { kani::any() }
    fn u16(&mut self) -> u16 { kani::any() }
    fn u32(&mut self) -> u32 { kani::any() }
    fn u64(&mut self) -> u64 { kani::any() }
    fn bool(&mut self) -> bool { kani::any() }
    fn choose(&mut self, n: u8) -> u8 { let v: u8 = kani::any(); kani::assume(v < n); v }
}

#[cfg(pearl_verif)]
pub(crate) struct ReplaySrc { vals: Vec<Vec<u8>>, next: usize }
#[cfg(pearl_verif)]
#[allow(dead_code)]
impl ReplaySrc {
    pub(crate) fn from_env() -> Self {
        let s = std::env::var("VERIF_REPLAY_VALS").unwrap_or_else(|_| "[]".to_string());
        // minimal parser for [[1,2],[3]]
        let mut vals = Vec::new();
        let mut cur: Option<Vec<u8>> = None;
        let mut num = String::new();
        let mut depth = 0;
        for c in s.chars() {
            match c {
                '[' => { depth += 1; if depth == 2 { cur = Some(Vec::new()); } }
                ']' => {
                    if depth == 2 {
                        if !num.is_empty() { cur.as_mut().unwrap().push(num.parse().unwrap()); num.clear(); }
                        vals.push(cur.take().unwrap());
                    }
                    depth -= 1;
                }
                ',' => { if depth == 2 && !num.is_empty() { cur.as_mut().unwrap().push(num.parse().unwrap()); num.clear(); } }
                d if d.is_ascii_digit() => num.push(d),
                _ => {}
            }
        }
        ReplaySrc { vals, next: 0 }
    }
    fn take(&mut self, n: usize) -> Vec<u8> {
        let mut v = self.vals.get(self.next).cloned().unwrap_or_default();
        self.next += 1;
        v.resize(n, 0);
        v
    }
}
#[cfg(pearl_verif)]
impl Src for ReplaySrc {
    fn u8(&mut self) -> u8 { self.take(1)[0] }
    fn u16(&mut self) -> u16 { let v = self.take(2); u16::from_le_bytes([v[0], v[1]]) }
    fn u32(&mut self) -> u32 { let v = self.take(4); u32::from_le_bytes([v[0], v[1], v[2], v[3]]) }
    fn u64(&mut self) -> u64 { let v = self.take(8); let mut a = [0u8; 8]; a.copy_from_slice(&v); u64::from_le_bytes(a) }
    fn bool(&mut self) -> bool { self.take(1)[0] != 0 }
    fn choose(&mut self, n: u8) -> u8 { self.take(1)[0] % n }
}

/// Exhaustive enumeration of all choice sequences (native bounded stand-in, NOT a proof): an
/// odometer over the `choose`/`bool` calls of one run; `advance` moves to the next sequence.
#[cfg(pearl_verif)]
pub(crate) struct EnumSrc { digits: Vec<(u8, u8)>, pos: usize }
#[cfg(pearl_verif)]
#[allow(dead_code)]
impl EnumSrc {
    pub(crate) fn new() -> Self { EnumSrc { digits: Vec::new(), pos: 0 } }
    pub(crate) fn trace(&self) -> Vec<Vec<u8>> { self.digits[..self.pos].iter().map(|d| vec![d.0]).collect() }
    /// prepares the next run; false when every sequence has been tried
    pub(crate) fn advance(&mut self) -> bool {
        self.digits.truncate(self.pos);
        while let Some((v, n)) = self.digits.pop() {
            if v + 1 < n { self.digits.push((v + 1, n)); self.pos = 0; return true; }
        }
        false
    }
}
#[cfg(pearl_verif)]
impl Src for EnumSrc {
    fn u8(&mut self) -> u8 { self.choose(255) }
    fn u16(&mut self) -> u16 { self.choose(255) as u16 }
    fn u32(&mut self) -> u32 { self.choose(255) as u32 }
    fn u64(&mut self) -> u64 { self.choose(255) as u64 }
    fn bool(&mut self) -> bool { self.choose(2) == 1 }
    fn choose(&mut self, n: u8) -> u8 {
        if self.pos == self.digits.len() { self.digits.push((0, n)); }
        let v = self.digits[self.pos].0;
        self.pos += 1;
        v
    }
}

/// replay-mode assertion: prints a marker instead of aborting the test process silently
#[allow(unused_macros)]
macro_rules! vassert {
    ($c:expr, $($m:tt)*) => {
        if !($c) {
            #[cfg(pearl_verif)]
            { println!("REPLAY-VIOLATION: {}", format!($($m)*)); }
            assert!($c, $($m)*);
        }
    };
}
