// Compiled inside src/blob/header.rs
use super::*;
include!("/verif/kani/support.rs");

/// C17: bincode bytes of blob::Header == frozen layout (LE u64 magic | LE u32 version | LE u64 flags),
/// 20 bytes. Loop-free over all field values => complete.
pub(crate) fn body_layout_blob_header<S: Src>(s: &mut S) {
    let h = Header { magic_byte: s.u64(), version: s.u32(), flags: s.u64() };
    let b = match bincode::serialize(&h) { Ok(b) => b, Err(_) => { vassert!(false, "serialize failed"); return; } };
    vassert!(b.len() == 20, "blob header is {} bytes", b.len());
    let m = h.magic_byte.to_le_bytes();
    let v = h.version.to_le_bytes();
    let f = h.flags.to_le_bytes();
    let mut i = 0;
    while i < 8 { vassert!(b[i] == m[i], "magic byte {}", i); vassert!(b[12 + i] == f[i], "flags byte {}", i); i += 1; }
    let mut i = 0;
    while i < 4 { vassert!(b[8 + i] == v[i], "version byte {}", i); i += 1; }
    // C17: format constants of the pinned release
    vassert!(BLOB_VERSION == 1 && BLOB_MAGIC_BYTE == 0xdeaf_abcd, "constants");
}

#[cfg(kani)]
#[kani::proof]
#[kani::unwind(10)]
fn check_layout_blob_header() { body_layout_blob_header(&mut KaniSrc); }

/// C17: deserialize is the inverse on every 20-byte string (fixed-width fields: total function)
pub(crate) fn body_roundtrip_blob_header<S: Src>(s: &mut S) {
    let mut raw = [0u8; 20];
    let mut i = 0;
    while i < 20 { raw[i] = s.u8(); i += 1; }
    match bincode::deserialize::<Header>(&raw) {
        Ok(h) => {
            let mut m = [0u8; 8]; let mut v = [0u8; 4]; let mut f = [0u8; 8];
            let mut i = 0;
            while i < 8 { m[i] = raw[i]; f[i] = raw[12 + i]; i += 1; }
            let mut i = 0;
            while i < 4 { v[i] = raw[8 + i]; i += 1; }
            vassert!(h.magic_byte == u64::from_le_bytes(m), "magic");
            vassert!(h.version == u32::from_le_bytes(v), "version");
            vassert!(h.flags == u64::from_le_bytes(f), "flags");
        }
        Err(_) => { vassert!(false, "deserialize of 20 bytes failed"); }
    }
}

#[cfg(kani)]
#[kani::proof]
#[kani::unwind(22)]
fn check_roundtrip_blob_header() { body_roundtrip_blob_header(&mut KaniSrc); }

#[cfg(all(test, pearl_verif))]
#[test]
fn verif_replay_layout_blob_header() {
    if std::env::var("VERIF_REPLAY_HARNESS").unwrap_or_default() == "check_layout_blob_header" {
        body_layout_blob_header(&mut ReplaySrc::from_env());
    }
}
