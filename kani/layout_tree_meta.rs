// Compiled inside src/blob/index/bptree/meta.rs
use super::*;
include!("/verif/kani/support.rs");

/// C17: TreeMeta = leaves_offset u64 | tree_offset u64 (16 bytes LE); NodeMeta = size u64 (8 bytes LE)
pub(crate) fn body_layout_tree_meta<S: Src>(s: &mut S) {
    let t = TreeMeta::new(s.u64(), s.u64());
    let b = match bincode::serialize(&t) { Ok(b) => b, Err(_) => { vassert!(false, "serialize failed"); return; } };
    vassert!(b.len() == 16, "tree meta is {} bytes", b.len());
    let l = t.leaves_offset.to_le_bytes();
    let o = t.tree_offset.to_le_bytes();
    let mut i = 0;
    while i < 8 { vassert!(b[i] == l[i], "leaves_offset {}", i); vassert!(b[8 + i] == o[i], "tree_offset {}", i); i += 1; }
    vassert!(matches!(TreeMeta::serialized_size_default(), Ok(16)), "TreeMeta::serialized_size_default");
    let n = NodeMeta::new(s.u64());
    let b = match bincode::serialize(&n) { Ok(b) => b, Err(_) => { vassert!(false, "serialize failed"); return; } };
    vassert!(b.len() == 8, "node meta is {} bytes", b.len());
    let z = n.size.to_le_bytes();
    let mut i = 0;
    while i < 8 { vassert!(b[i] == z[i], "size {}", i); i += 1; }
    vassert!(matches!(NodeMeta::serialized_size_default(), Ok(8)), "NodeMeta::serialized_size_default == 8 (assumed by the serializer proofs)");
}

#[cfg(kani)]
#[kani::proof]
#[kani::unwind(10)]
fn check_layout_tree_meta() { body_layout_tree_meta(&mut KaniSrc); }

#[cfg(all(test, pearl_verif))]
#[test]
fn verif_replay_layout_tree_meta() {
    if std::env::var("VERIF_REPLAY_HARNESS").unwrap_or_default() == "check_layout_tree_meta" { body_layout_tree_meta(&mut ReplaySrc::from_env()); }
}
