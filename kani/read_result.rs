// Harnesses compiled inside src/storage/read_result.rs (child module: sees private items).
use super::*;
include!("/verif/kani/support.rs");

fn mk_rr<S: Src>(s: &mut S) -> (u8, u64) {
    let tag = s.u8() % 3;
    let ts = s.u64();
    (tag, ts)
}
fn build(tag: u8, ts: u64) -> ReadResult<BlobRecordTimestamp> {
    match tag {
        0 => ReadResult::Found(BlobRecordTimestamp::new(ts)),
        1 => ReadResult::Deleted(BlobRecordTimestamp::new(ts)),
        _ => ReadResult::NotFound,
    }
}

/// C01 (tie-break and Option ordering): `a.latest(b)` is `b` iff b carries a timestamp strictly
/// greater than a's (NotFound counts as "no timestamp", below every timestamp), else `a`.
/// Loop-free, full input domain => complete proof on the real compiled code.
pub(crate) fn body_latest_ts<S: Src>(s: &mut S) {
    let (ta, tsa) = mk_rr(s);
    let (tb, tsb) = mk_rr(s);
    let r = build(ta, tsa).latest(build(tb, tsb));
    let a_has = ta != 2;
    let b_has = tb != 2;
    let b_wins = b_has && (!a_has || tsb > tsa);
    let expect = if b_wins { build(tb, tsb) } else { build(ta, tsa) };
    vassert!(r == expect, "latest({},{}) vs ({},{}) gave {:?}, expected {:?}", ta, tsa, tb, tsb, r, expect);
    #[cfg(kani)]
    {
        kani::cover!(b_wins, "other wins");
        kani::cover!(a_has && b_has && tsa == tsb, "tie");
    }
}

#[cfg(kani)]
#[kani::proof]
fn check_latest_ts() {
    body_latest_ts(&mut KaniSrc);
}

#[cfg(all(test, pearl_verif))]
#[test]
fn verif_replay_read_result() {
    let h = std::env::var("VERIF_REPLAY_HARNESS").unwrap_or_default();
    if h == "check_latest_ts" {
        body_latest_ts(&mut ReplaySrc::from_env());
    }
}
