// Compiled inside src/record/partially_serialized.rs
use super::*;
include!("/verif/kani/support.rs");

/// C05: PartiallySerializedRecord::finalize_with_checksum changes exactly the 8 bytes of the
/// blob_offset field and the 4 bytes of the header checksum field of the header (frame), writes the
/// offset little-endian, (that the checksum value is the CRC32C of the zero-checksum header is NOT checked here: CBMC did not
/// decide the CRC comparison in 10 min; it is an assumed stub contract, pinned by the existing unit test). BOUNDED in the buffer length (header of HL bytes + TAIL following bytes).
pub(crate) fn body_finalize<S: Src>(s: &mut S, hl: usize, tail: usize) {
    let n = hl + tail;
    let mut input = BytesMut::with_capacity(n);
    let mut orig = [0u8; 96];
    let mut i = 0;
    while i < n { let b = s.u8(); orig[i] = b; input.extend_from_slice(&[b]); i += 1; }
    let off = s.u64();
    let (out, checksum) = PartiallySerializedRecord::finalize_with_checksum(input, hl, off);
    vassert!(out.len() == n, "length changed");
    let ob = off.to_le_bytes();
    let cb = checksum.to_le_bytes();
    let mut i = 0;
    while i < n {
        if i >= hl - 24 && i < hl - 16 { vassert!(out[i] == ob[i - (hl - 24)], "offset byte {}", i); }
        else if i >= hl - 4 && i < hl { vassert!(out[i] == cb[i - (hl - 4)], "checksum byte {}", i); }
        else { vassert!(out[i] == orig[i], "byte {} outside the patched fields changed", i); }
        i += 1;
    }
}

#[cfg(kani)]
#[kani::proof]
#[kani::unwind(70)]
fn check_finalize_hl58() { body_finalize(&mut KaniSrc, 58, 6); }

#[cfg(all(test, pearl_verif))]
#[test]
fn verif_replay_partially_serialized() {
    if std::env::var("VERIF_REPLAY_HARNESS").unwrap_or_default() == "check_finalize_hl58" { body_finalize(&mut ReplaySrc::from_env(), 58, 6); }
}
