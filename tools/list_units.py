#!/usr/bin/env python3
"""Prints, from the sidecar files of the last run, the real functions each unit file puts under
contract (own targets only, not those of included units) as a markdown table."""
import json, os, re, glob
V = "/verif"
units = {}
order = []
for vc in sorted(glob.glob(V + "/contracts/*.vc")):
    u = os.path.basename(vc)[:-3]
    own = re.findall(r"^@target\s+(\S+)", open(vc).read(), re.M)
    side = V + "/build/gen/%s.json" % u
    if not os.path.exists(side):
        continue
    d = json.load(open(side))
    byname = {f["target"]: f for f in d["functions"]}
    fns = []
    for t in own:
        f = byname.get(t)
        if f:
            fns.append(f["function"] + (" (fragment)" if f.get("fragment") else ""))
    units[u] = fns
total = sum(len(v) for v in units.values())
print("%d real functions / fragments under contract\n" % total)
print("| Unit file | Real functions under contract |")
print("|---|---|")
for u, fns in units.items():
    if fns:
        print("| `%s` (%d) | %s |" % (u, len(fns), ", ".join("`%s`" % f for f in fns)))
