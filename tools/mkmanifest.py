#!/usr/bin/env python3
"""Regenerates MANIFEST.json from registry.json (claimed properties) + the texts below."""
import json, os, subprocess
V = os.path.dirname(os.path.dirname(os.path.abspath(__file__)))
reg = json.load(open(os.path.join(V, "registry.json")))
TEXT = {
 "C01": ("Deductive proof (Verus) on the real text of IndexStruct::push / get_latest / contains_key, ReadResult::latest and Blob::write_mut: ordered insertion with ties after equal timestamps for vectors of every length, last-element lookup and Found/Deleted/NotFound classification, strictly-newer-wins merge; Kani-complete proof of ReadResult<BlobRecordTimestamp>::latest on the compiled code (counterexamples replayed on the real function).",
         "Sequential; BTreeMap/binary_search_by/Option ordering are assumed std contracts (the last validated by Kani); the cross-blob iterator order and the storage-level stream plumbing are unverified surroundings; on-disk arm relies on C09."),
 "C02": ("Deductive proof of IndexStruct::get_all_with_deletion_marker / get_all (reverse + cut after first marker), Blob::delete / push_deletion_record (marker appended iff !only_if_presented or key live), and the storage-level merge fragments.",
         "sort_by stability, Iterator::position, slice::reverse assumed; metadata comparison (load_meta) is an adversarial stub."),
 "C03": ("Deductive proof over the real index-acceptance functions: an index file is accepted iff written-bit set, version 6, key size equal, recorded blob size EQUAL to the actual one, magic ok — for all header values; dump/load keep every answer (same_answers) and a failed load falls back to regeneration from the blob.",
         "bincode/OS behaviour assumed via prelude stubs; whole-restart equivalence is assembled from per-function contracts, not observed."),
 "C04": ("Deductive proof of view preservation for the lifecycle operations: IndexStruct::dump/load/clear/offload_filter, Blob::dump/load_index/push_deletion_record, Inner::close_active_blob/restore_active_blob, HierarchicalFilters::pop/remove — each leaves every query answer (all_versions, latest_version, count) unchanged and maintains the lifecycle invariant 'the active blob's index is in memory'.",
         "Sequential (locks taken on trust, R7); schedules of background maintenance and both runtime flavours are out of reach; HierarchicalFilters::push is an assumed contract."),
 "C05": ("Deductive proof of the record serialisation / checksum path and of the load-side CRC checks for every byte string the disk may return.",
         "CRC32C as an uninterpreted function (burst detection is a cited mathematical fact); bincode widths assumed (validated by Kani on the real bincode)."),
 "C06": ("Deductive proof of the recovery logic for every file content: RawRecords scan returns Err(Bincode/Validation) or a header list in file order whose headers passed magic+CRC; quarantine decision table total.",
         "Crash timing, page cache and fs ordering are the OS; not reachable by contracts — stated as assumptions."),
 "C07": ("Deductive proof of frame conditions with ghost file contents: appends write only [old_size, old_size+len); queries issue no write; blob ids strictly increase.",
         "pwrite/O_APPEND/rename semantics assumed; no other process touches the directory."),
 "C09": ("Deductive proof (Verus) of the B+tree serializer loops and the serialized-node searches for all shapes and key lengths.",
         "bincode widths; K / K::Ref order agreement (R10); append_headers / get_records_headers iterator chains are a bounded Kani stand-in."),
 "C10": ("Deductive proof that bloom/range/combined filters answer NotContains only when a bit/range excludes the key, with the hash uninterpreted; Kani-complete bit-mapping lemmas on the real AtomicBitVec arithmetic.",
         "hasher determinism; hierarchy arena invariant is a bounded stand-in."),
 "C11": ("Deductive proof over nondeterministic I/O stubs (every file operation may fail): a failed append is never indexed, a failed index dump or a failed sync on close loses no record (same_answers on every error path).",
         "What is on disk after a partial write is the OS; sequential reasoning."),
 "C12": ("Deductive proof over a ghost I/O trace: blob header appended then synced before open_new returns; blob synced before its index is written; explicit fsyncdata and successful close leave dirty == 0; over-limit dirty bytes with no sync in flight trigger a sync request.",
         "That the request is eventually served is liveness (C13) and assumed; File::fsyncdata's own size/synced bookkeeping is an assumed stub."),
 "C13": ("Deductive proof of the safety core: ObserverWorker::run never panics and leaves its loop only on TickResult::Stop, which tick/tick_with_deadline return only for a closed channel — for every message and every result of the storage entry points.",
         "Liveness (eventual rotation / dump completion / close termination) is not a contract property; assumed."),
 "C15": ("Deductive proof: push adds exactly one to the per-index count and keeps count == number of stored headers; dump/load preserve the count; HierarchicalFilters::len counts live children (blobs_count).",
         "sum over a finite map characterised by two assumed mathematical facts; std iterator flatten().count() assumed."),
 "C16": ("Deductive proof on the real tools code with an adversarial file: reader accepts only header-CRC- and data-CRC-valid records, recovery copies in order and re-stamps offsets.",
         "bincode round trip between storage writer and tool reader assumed."),
 "C17": ("Kani-complete proofs on the real bincode that the encoded bytes of the fixed-size format structs equal frozen spec functions; version/magic/key-size mismatches rejected with the named validation kinds (Verus).",
         "Opening a corpus written by the pinned binary is corpus replay, a different family."),
}
NA_FIXED = [
 {"property_id": "C08", "reason": "linearizability / deadlock freedom range over thread schedules; Kani has no threads and Verus would need the code rewritten around its permission types — not expressible as contracts on the code that runs"},
 {"property_id": "C14", "reason": "ranges over suspension points of compiler-generated futures; the lowering erases exactly those points (R1); no contract can state it"},
]
claimed = sorted(reg["properties"].keys())
def commits():
    out = subprocess.run(["git", "-C", "/repo", "log", "--format=%h %s"], stdout=subprocess.PIPE, text=True).stdout
    return [l.split()[0] for l in out.splitlines() if l.split(" ", 1)[1].startswith("verif hook")]
checks = []
for p in claimed:
    t, n = TEXT[p]
    checks.append({
        "property_id": p, "quick_cmd": "./check %s --tier quick" % p, "thorough_cmd": "./check %s --tier thorough" % p,
        "evidence_file": "evidence/%s.json" % p, "replay_cmd_template": "./check %s --replay {path}" % p,
        "engine": "vextract+verus" + ("+kani" if reg["properties"][p].get("kani") else ""),
        "level_claimed": {"category": "proof", "text": t, "design_ref": "DESIGN.md §5 " + p},
        "level_note": n,
        "technique": "contract-based deductive verification: Verus on mechanically extracted real functions" + ("; Kani/CBMC harnesses on the real crate" if reg["properties"][p].get("kani") else ""),
    })
na = list(NA_FIXED)
for i in range(1, 18):
    p = "C%02d" % i
    if p not in claimed and p not in ("C08", "C14"):
        na.append({"property_id": p, "reason": "check under construction in this session — not yet registered"})
m = {
 "version": 1, "setup_cmd": "./check --setup",
 "hooks": {
  "guard": "cfg(kani) (set only by cargo-kani) and cfg(pearl_verif) (RUSTFLAGS='--cfg pearl_verif', replay only)",
  "enable": "Verus route needs no hook (functions are extracted from /repo/src by tools/vextract on every run). Kani route: `cargo kani --lib` in /repo sets cfg(kani), which activates add-only `#[cfg(any(kani, pearl_verif))] #[path=\"/verif/kani/*.rs\"] mod verif_kani;` lines. Replay: RUSTFLAGS='--cfg pearl_verif' cargo test --lib verif_replay.",
  "baseline_off_cmd": "cd /repo && cargo nextest run --workspace --no-fail-fast --tool-config-file pb:/w/lib/nextest.toml --profile pb --test-threads 8 --offline || (cd /repo && cargo test --workspace --no-fail-fast --offline)",
  "source_commits": commits(), "add_only": True },
 "engines": [
  {"name": "vextract+verus", "path": "tools/vextract, contracts/, prelude/, lemmas/", "serves_properties": claimed, "kind_free_text": "mechanical extraction of the real functions of /repo into single-file Verus programs on every run; contracts (requires/ensures/invariants/ghost state) spliced from contracts/*.vc; discharged by Verus 0.2026.09.13 / Z3"},
  {"name": "kani", "path": "kani/, lib/kani_route.py", "serves_properties": [p for p in claimed if reg["properties"][p].get("kani")], "kind_free_text": "Kani 0.68 / CBMC harnesses compiled inside the real crate via cfg(kani) hooks: complete proofs for loop-free leaf functions, counterexamples, bounded stand-ins (labelled)"}],
 "checks": checks, "not_applicable": na,
 "notes": "See DESIGN.md. Exit 2 (UNDECIDED) is used for lost anchors, unsupported constructs and solver resource limits; it is never an alarm. known_findings.txt lists repaired genuine defects (fixed:) and recorded ones (known:)."
}
json.dump(m, open(os.path.join(V, "MANIFEST.json"), "w"), indent=1)
print("claimed:", claimed)
