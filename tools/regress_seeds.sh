#!/bin/bash
export VERIF_EVIDENCE_DIR=/verif/build/evidence_seeded   # evidence of runs on a seeded tree must not replace the evidence of /repo itself
# runs every kept seeded change against the property it was written for; prints one line per seed
cd /verif
git -C /repo status --short | grep -q . && { echo "/repo not clean"; exit 2; }
for d in seeded/*/; do
  id=$(basename $d); prop=${id%%-*}
  git -C /repo apply /verif/seeded/$id/patch.diff || { echo "$id patch does not apply"; continue; }
  out=$(./check $prop 2>&1); rc=$?
  git -C /repo checkout -- .
  echo "$id rc=$rc $(echo "$out" | grep -m1 '^VIOLATION\|^UNDECIDED' | cut -c1-160)"
done
