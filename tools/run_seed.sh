#!/bin/bash
export VERIF_EVIDENCE_DIR=/verif/build/evidence_seeded   # evidence of runs on a seeded tree must not replace the evidence of /repo itself
# usage: tools/run_seed.sh <seed-id> <prop> [more props]   applies seeded/<id>/patch.diff to /repo, runs the checks, reverts
ID=$1; shift
git -C /repo apply /verif/seeded/$ID/patch.diff || { echo "patch does not apply"; exit 2; }
for p in "$@"; do /verif/check $p; echo "rc=$? ($p)"; done
git -C /repo checkout -- .
git -C /repo status --short | head -3
