#!/bin/bash
# usage: tools/run_seed.sh <seed-id> <prop> [more props]   applies seeded/<id>/patch.diff to /repo, runs the checks, reverts
ID=$1; shift
git -C /repo apply /verif/seeded/$ID/patch.diff || { echo "patch does not apply"; exit 2; }
for p in "$@"; do /verif/check $p; echo "rc=$? ($p)"; done
git -C /repo checkout -- .
git -C /repo status --short | head -3
