#!/bin/bash
# runs every unit once on /repo (or VERIF_REPO); prints the units that are not ok; exit 1 if any
cd /verif; bad=0
for u in $(ls contracts/*.vc | xargs -n1 basename | sed 's/.vc//'); do r=$(./check --unit $u 2>&1 | head -1 | cut -c1-200); case "$r" in ok*) ;; *) echo "$u: $r"; bad=1;; esac; done
[ $bad = 0 ] && echo "all units ok"; exit $bad
