//! vextract — mechanical extraction of real pearl functions into single-file Verus programs.
//!
//! usage: vextract <repo> <verif> <unit.vc> <out.rs> <out.json>
//!
//! Exit codes: 0 ok, 2 undecided (lost anchor / unsupported construct / bad spec). Never 1.
mod pat;
mod print;
mod spec;

use pat::{instantiate, match_expr, match_stmt, match_type, PTok};
use proc_macro2::{Span, TokenStream};
use quote::{quote, ToTokens};
use serde_json::json;
use spec::{Item, Rule, Target, Unit};
use std::collections::{BTreeMap, HashMap};
use syn::spanned::Spanned;
use syn::visit_mut::{self, VisitMut};
use syn::{Block, Expr, Stmt};

fn die(msg: &str) -> ! {
    println!("UNDECIDED reason={}", msg.replace('\n', " "));
    eprintln!("vextract: {}", msg);
    std::process::exit(2);
}

fn fnv(s: &str) -> String {
    let mut h: u64 = 0xcbf29ce484222325;
    for b in s.as_bytes() {
        h ^= *b as u64;
        h = h.wrapping_mul(0x100000001b3);
    }
    format!("{:016x}", h)
}

const LOG_MACROS: [&str; 5] = ["trace", "debug", "info", "warn", "error"];

fn macro_name(m: &syn::Macro) -> String {
    m.path.segments.last().map(|s| s.ident.to_string()).unwrap_or_default()
}

// ---------------------------------------------------------------------------------------------
// locating items

struct Found {
    sig: syn::Signature,
    block: Block,
    line_start: usize,
    line_end: usize,
}

fn type_last_ident(t: &syn::Type) -> String {
    match t {
        syn::Type::Path(p) => p.path.segments.last().map(|s| s.ident.to_string()).unwrap_or_default(),
        syn::Type::Reference(r) => type_last_ident(&r.elem),
        _ => String::new(),
    }
}

fn norm(s: &str) -> String {
    s.chars().filter(|c| !c.is_whitespace()).collect()
}

fn find_fn_in_items(items: &[syn::Item], t: &Target, out: &mut Vec<Found>) {
    for it in items {
        match it {
            syn::Item::Fn(f) if t.impl_of.is_none() && f.sig.ident == t.fn_name => {
                out.push(Found {
                    sig: f.sig.clone(),
                    block: (*f.block).clone(),
                    line_start: f.span().start().line,
                    line_end: f.span().end().line,
                });
            }
            syn::Item::Impl(im) => {
                if let Some(want) = &t.impl_of {
                    let self_ok = if want.contains('<') {
                        norm(&im.self_ty.to_token_stream().to_string()) == norm(want)
                    } else {
                        type_last_ident(&im.self_ty) == *want
                    };
                    if !self_ok {
                        continue;
                    }
                    let trait_name = im
                        .trait_
                        .as_ref()
                        .map(|(_, p, _)| p.segments.last().map(|s| s.ident.to_string()).unwrap_or_default());
                    if let Some(tw) = &t.trait_of {
                        if trait_name.as_deref() != Some(tw.as_str()) {
                            continue;
                        }
                    } else if trait_name.is_some() && !t.any_impl {
                        // `Type :: f` names an inherent method; trait methods are `Trait for Type :: f`
                        continue;
                    }
                    for ii in &im.items {
                        if let syn::ImplItem::Fn(f) = ii {
                            if f.sig.ident == t.fn_name {
                                out.push(Found {
                                    sig: f.sig.clone(),
                                    block: f.block.clone(),
                                    line_start: f.span().start().line,
                                    line_end: f.span().end().line,
                                });
                            }
                        }
                    }
                }
            }
            syn::Item::Trait(tr) => {
                if t.impl_of.as_deref() == Some(&tr.ident.to_string()) {
                    for ti in &tr.items {
                        if let syn::TraitItem::Fn(f) = ti {
                            if f.sig.ident == t.fn_name {
                                if let Some(b) = &f.default {
                                    out.push(Found {
                                        sig: f.sig.clone(),
                                        block: b.clone(),
                                        line_start: f.span().start().line,
                                        line_end: f.span().end().line,
                                    });
                                }
                            }
                        }
                    }
                }
            }
            syn::Item::Mod(m) => {
                if let Some((_, items)) = &m.content {
                    // skip test modules
                    if m.ident == "tests" || m.ident == "test" {
                        continue;
                    }
                    find_fn_in_items(items, t, out);
                }
            }
            _ => {}
        }
    }
}

fn find_named_item<'a>(items: &'a [syn::Item], name: &str) -> Option<&'a syn::Item> {
    for it in items {
        match it {
            syn::Item::Struct(s) if s.ident == name => return Some(it),
            syn::Item::Enum(s) if s.ident == name => return Some(it),
            syn::Item::Const(s) if s.ident == name => return Some(it),
            syn::Item::Type(s) if s.ident == name => return Some(it),
            syn::Item::Mod(m) => {
                if let Some((_, items)) = &m.content {
                    if m.ident == "tests" {
                        continue;
                    }
                    if let Some(x) = find_named_item(items, name) {
                        return Some(x);
                    }
                }
            }
            _ => {}
        }
    }
    None
}

// ---------------------------------------------------------------------------------------------
// lowering

struct Lower<'a> {
    forloops: usize,
    drop_generics: Vec<String>,
    rules: Vec<&'a Rule>,
    counts: Vec<usize>,
    notes: BTreeMap<String, usize>,
}

impl<'a> Lower<'a> {
    fn note(&mut self, s: &str) {
        *self.notes.entry(s.to_string()).or_insert(0) += 1;
    }

    fn apply_expr_rules(&mut self, e: &mut Expr) {
        let mut guard = 0;
        'outer: loop {
            guard += 1;
            if guard > 8 {
                break;
            }
            for (i, r) in self.rules.iter().enumerate() {
                if r.kind != "rewrite" {
                    continue;
                }
                if let Some(b) = match_expr(&r.pat, e) {
                    let ts = match instantiate(&r.tpl, &b) {
                        Ok(t) => t,
                        Err(m) => die(&format!("{}: {}", r.origin, m)),
                    };
                    match syn::parse2::<Expr>(ts.clone()) {
                        Ok(ne) => {
                            *e = ne;
                            self.counts[i] += 1;
                            continue 'outer;
                        }
                        Err(err) => die(&format!(
                            "{}: replacement does not parse as an expression: {} ({})",
                            r.origin, ts, err
                        )),
                    }
                }
            }
            break;
        }
    }

    fn lower_macro_expr(&mut self, m: &syn::Macro) -> Option<Expr> {
        let name = macro_name(m);
        match name.as_str() {
            "assert" | "debug_assert" => {
                let args = m
                    .parse_body_with(syn::punctuated::Punctuated::<Expr, syn::Token![,]>::parse_terminated)
                    .ok()?;
                let c = args.first()?.clone();
                self.note("R11 assert!/debug_assert! -> if !(c) { vpanic() } with vpanic requires false");
                Some(syn::parse_quote!(if !(#c) { vpanic(); }))
            }
            "assert_eq" | "debug_assert_eq" => {
                let args = m
                    .parse_body_with(syn::punctuated::Punctuated::<Expr, syn::Token![,]>::parse_terminated)
                    .ok()?;
                let mut it = args.iter();
                let a = it.next()?.clone();
                let b = it.next()?.clone();
                self.note("R11 assert_eq! -> if !(a == b) { vpanic() } with vpanic requires false");
                Some(syn::parse_quote!(if !((#a) == (#b)) { vpanic(); }))
            }
            "panic" | "unreachable" | "unimplemented" | "todo" => {
                self.note("panic!/unreachable! -> vpanic() with vpanic requires false");
                Some(syn::parse_quote!(vpanic()))
            }
            "matches" => {
                let ts = m.tokens.clone();
                let parsed: Result<(Expr, syn::Pat, Option<Expr>), _> =
                    syn::parse::Parser::parse2(
                        |input: syn::parse::ParseStream| {
                            let e: Expr = input.parse()?;
                            let _: syn::Token![,] = input.parse()?;
                            let p = syn::Pat::parse_multi_with_leading_vert(input)?;
                            let g = if input.peek(syn::Token![if]) {
                                let _: syn::Token![if] = input.parse()?;
                                Some(input.parse::<Expr>()?)
                            } else {
                                None
                            };
                            let _ = input.parse::<Option<syn::Token![,]>>();
                            Ok((e, p, g))
                        },
                        ts,
                    );
                let (e, p, g) = parsed.ok()?;
                self.note("matches! -> match");
                Some(match g {
                    Some(g) => syn::parse_quote!(match #e { #p if #g => true, _ => false }),
                    None => syn::parse_quote!(match #e { #p => true, _ => false }),
                })
            }
            _ => None,
        }
    }
}

fn is_log_stmt(s: &Stmt) -> bool {
    match s {
        Stmt::Macro(m) => LOG_MACROS.contains(&macro_name(&m.mac).as_str()),
        Stmt::Expr(Expr::Macro(m), _) => LOG_MACROS.contains(&macro_name(&m.mac).as_str()),
        _ => false,
    }
}

impl<'a> VisitMut for Lower<'a> {
    fn visit_block_mut(&mut self, b: &mut Block) {
        let mut out: Vec<Stmt> = Vec::new();
        let n = b.stmts.len();
        for (idx, s) in std::mem::take(&mut b.stmts).into_iter().enumerate() {
            if is_log_stmt(&s) {
                // a log macro in tail position yields `()`; the block keeps yielding `()`
                let _ = idx + 1 == n;
                self.note("R2 log macro statement dropped");
                continue;
            }
            let mut dropped = false;
            for (i, r) in self.rules.iter().enumerate() {
                if r.kind == "dropstmt" && match_stmt(&r.pat, &s, false).is_some() {
                    self.counts[i] += 1;
                    dropped = true;
                    break;
                }
            }
            if dropped {
                continue;
            }
            let mut replaced = false;
            for (i, r) in self.rules.iter().enumerate() {
                if r.kind == "stmt" {
                    if let Some(bd) = match_stmt(&r.pat, &s, false) {
                        let ts = match instantiate(&r.tpl, &bd) {
                            Ok(t) => t,
                            Err(m) => die(&format!("{}: {}", r.origin, m)),
                        };
                        let blk: Block = match syn::parse2(quote!({ #ts })) {
                            Ok(b) => b,
                            Err(e) => die(&format!("{}: replacement statements do not parse: {}", r.origin, e)),
                        };
                        out.extend(blk.stmts);
                        self.counts[i] += 1;
                        replaced = true;
                        break;
                    }
                }
            }
            if replaced {
                continue;
            }
            let s = match s {
                Stmt::Macro(m) => {
                    if let Some(e) = self.lower_macro_expr(&m.mac) {
                        Stmt::Expr(e, Some(Default::default()))
                    } else {
                        Stmt::Macro(m)
                    }
                }
                other => other,
            };
            out.push(s);
        }
        b.stmts = out;
        visit_mut::visit_block_mut(self, b);
    }

    fn visit_expr_mut(&mut self, e: &mut Expr) {
        // R1: `.await` disappears
        loop {
            match e {
                Expr::Await(a) => {
                    let base = (*a.base).clone();
                    *e = base;
                    self.note("R1 .await removed");
                }
                _ => break,
            }
        }
        if let Expr::Macro(m) = e {
            if let Some(ne) = self.lower_macro_expr(&m.mac) {
                *e = ne;
            }
        }
        // R4: while let
        if let Expr::While(w) = e {
            if let Expr::Let(l) = &*w.cond {
                let pat = (*l.pat).clone();
                let scrut = (*l.expr).clone();
                let body = w.body.clone();
                let label = w.label.clone();
                let lp: Expr = syn::parse_quote!(loop { match #scrut { #pat => #body, _ => { break; } } });
                if let Expr::Loop(mut el) = lp {
                    el.label = label;
                    *e = Expr::Loop(el);
                }
                self.note("R4 while-let -> loop/match/break");
            }
        }
        // R6: `for PAT in <map/iterator expr> BODY` -> indexed while loop over the entry vector
        // returned by a prelude stub (rule kind `forloop`: ITER =>> VEC ;; ELEM using __it/__i)
        if let Expr::ForLoop(f) = e {
            let mut hit: Option<(usize, pat::Binds)> = None;
            for (i, r) in self.rules.iter().enumerate() {
                if r.kind == "forloop" {
                    if let Some(b) = match_expr(&r.pat, &f.expr) {
                        hit = Some((i, b));
                        break;
                    }
                }
            }
            if let Some((i, b)) = hit {
                let r = self.rules[i];
                let ts = match instantiate(&r.tpl, &b) { Ok(t) => t, Err(m) => die(&format!("{}: {}", r.origin, m)) };
                // split at `;;`
                let toks: Vec<proc_macro2::TokenTree> = ts.into_iter().collect();
                let mut split = None;
                for k in 0..toks.len().saturating_sub(1) {
                    if let (proc_macro2::TokenTree::Punct(a), proc_macro2::TokenTree::Punct(c)) = (&toks[k], &toks[k + 1]) {
                        if a.as_char() == ';' && c.as_char() == ';' { split = Some(k); break; }
                    }
                }
                let k = match split { Some(k) => k, None => die(&format!("{}: forloop rule needs `VEC ;; ELEM`", r.origin)) };
                let vec_ts: TokenStream = toks[..k].iter().cloned().collect();
                let elem_ts: TokenStream = toks[k + 2..].iter().cloned().collect();
                let n = self.forloops;
                self.forloops += 1;
                let it = syn::Ident::new(&format!("__it{}", n), Span::call_site());
                let ix = syn::Ident::new(&format!("__i{}", n), Span::call_site());
                // rename __it / __i in the element template
                fn rename(ts: TokenStream, it: &syn::Ident, ix: &syn::Ident) -> TokenStream {
                    ts.into_iter().map(|t| match t {
                        proc_macro2::TokenTree::Ident(id) if id == "__it" => proc_macro2::TokenTree::Ident(it.clone()),
                        proc_macro2::TokenTree::Ident(id) if id == "__i" => proc_macro2::TokenTree::Ident(ix.clone()),
                        proc_macro2::TokenTree::Group(g) => {
                            let mut ng = proc_macro2::Group::new(g.delimiter(), rename(g.stream(), it, ix));
                            ng.set_span(g.span());
                            proc_macro2::TokenTree::Group(ng)
                        }
                        o => o,
                    }).collect()
                }
                let elem_ts = rename(elem_ts, &it, &ix);
                let vec_e: Expr = match syn::parse2(vec_ts) { Ok(x) => x, Err(er) => die(&format!("{}: {}", r.origin, er)) };
                let elem_e: Expr = match syn::parse2(elem_ts) { Ok(x) => x, Err(er) => die(&format!("{}: {}", r.origin, er)) };
                let pat = (*f.pat).clone();
                let body_stmts = f.body.stmts.clone();
                let ne: Expr = syn::parse_quote!({
                    let #it = #vec_e;
                    let mut #ix: usize = 0;
                    while #ix < #it.len() {
                        let #pat = #elem_e;
                        #ix += 1;
                        #(#body_stmts)*
                    }
                });
                *e = ne;
                self.counts[i] += 1;
                self.note("R6 for-over-iterator -> indexed while over the stub's entry vector");
            }
        }
        // R6': `for PAT in A..B BODY` -> `{ let mut __iN = A; let __endN = B; while __iN < __endN { let PAT = __iN; __iN += 1; BODY } }`
        if let Expr::ForLoop(f) = e {
            if let Expr::Range(r) = &*f.expr {
                if let (Some(a), Some(b), syn::RangeLimits::HalfOpen(_)) = (&r.start, &r.end, &r.limits) {
                    let n = self.forloops;
                    self.forloops += 1;
                    let ix = syn::Ident::new(&format!("__i{}", n), Span::call_site());
                    let end = syn::Ident::new(&format!("__end{}", n), Span::call_site());
                    let pat = (*f.pat).clone();
                    let body_stmts = f.body.stmts.clone();
                    let (a, b) = ((**a).clone(), (**b).clone());
                    let ne: Expr = syn::parse_quote!({
                        let mut #ix = #a;
                        let #end = #b;
                        while #ix < #end {
                            let #pat = #ix;
                            #ix += 1;
                            #(#body_stmts)*
                        }
                    });
                    *e = ne;
                    self.note("R6' for-over-range -> while with explicit counter");
                }
            }
        }
        // R13: `match X { P if G => A, _ => B }` -> `match X { P => if G { A } else { B }, _ => B }`
        // (Verus: no match guard together with a by-mutable-reference binding)
        if let Expr::Match(m) = e {
            if m.arms.len() == 2 && m.arms[0].guard.is_some() && m.arms[1].guard.is_none()
                && matches!(m.arms[1].pat, syn::Pat::Wild(_))
                && m.expr.to_token_stream().to_string().contains("& mut")
            {
                let g = m.arms[0].guard.take().unwrap().1;
                let a = (*m.arms[0].body).clone();
                let b = (*m.arms[1].body).clone();
                m.arms[0].body = Box::new(syn::parse_quote!(if #g { #a } else { #b }));
                self.note("R13 guarded arm + wildcard -> unguarded arm with inner if");
            }
        }
        if let Expr::Async(_) = e {
            die("unsupported construct: async block in target");
        }
        // rules are tried on the node as written (so that larger patterns win), then on the
        // node again after its children have been lowered
        self.apply_expr_rules(e);
        visit_mut::visit_expr_mut(self, e);
        self.apply_expr_rules(e);
    }

    fn visit_path_mut(&mut self, p: &mut syn::Path) {
        // a dropped generic parameter also disappears from every argument list
        for seg in p.segments.iter_mut() {
            let mut now_empty = false;
            if let syn::PathArguments::AngleBracketed(ab) = &mut seg.arguments {
                let kept: Vec<syn::GenericArgument> = ab
                    .args
                    .iter()
                    .filter(|a| match a {
                        syn::GenericArgument::Type(syn::Type::Path(tp)) => {
                            !(tp.qself.is_none()
                                && tp.path.segments.len() == 1
                                && tp.path.segments[0].arguments.is_none()
                                && self.drop_generics.contains(&tp.path.segments[0].ident.to_string()))
                        }
                        _ => true,
                    })
                    .cloned()
                    .collect();
                if kept.len() != ab.args.len() {
                    ab.args = kept.into_iter().collect();
                    now_empty = ab.args.is_empty();
                }
            }
            if now_empty {
                seg.arguments = syn::PathArguments::None;
            }
        }
        visit_mut::visit_path_mut(self, p);
    }

    fn visit_type_mut(&mut self, t: &mut syn::Type) {
        self.apply_type_rules(t);
        visit_mut::visit_type_mut(self, t);
        self.apply_type_rules(t);
    }
}

impl<'a> Lower<'a> {
    fn apply_type_rules(&mut self, t: &mut syn::Type) {
        let mut guard = 0;
        'outer: loop {
            guard += 1;
            if guard > 8 {
                break;
            }
            for (i, r) in self.rules.iter().enumerate() {
                if r.kind != "type" {
                    continue;
                }
                if let Some(b) = match_type(&r.pat, t) {
                    let ts = match instantiate(&r.tpl, &b) {
                        Ok(t) => t,
                        Err(m) => die(&format!("{}: {}", r.origin, m)),
                    };
                    match syn::parse2::<syn::Type>(ts.clone()) {
                        Ok(nt) => {
                            if nt == *t {
                                break 'outer;
                            }
                            *t = nt;
                            self.counts[i] += 1;
                            continue 'outer;
                        }
                        Err(err) => die(&format!("{}: type replacement does not parse: {} ({})", r.origin, ts, err)),
                    }
                }
            }
            break;
        }
    }
}

// R14: RAII guards -------------------------------------------------------------------------------
// `let _g = Guard { .. };` whose Drop runs RESET at scope exit: the statement is removed and RESET is
// made explicit on every way out of the rest of the block — `return`, `?` and the normal end.
struct GuardExits {
    reset: Vec<Stmt>,
}
impl VisitMut for GuardExits {
    fn visit_expr_mut(&mut self, e: &mut Expr) {
        // do not descend into closures (their `return` / `?` leave the closure, not the scope)
        if let Expr::Closure(_) = e {
            return;
        }
        visit_mut::visit_expr_mut(self, e);
        let reset = &self.reset;
        match e {
            Expr::Return(r) => {
                let val: Expr = match &r.expr {
                    Some(v) => (**v).clone(),
                    None => syn::parse_quote!(()),
                };
                *e = syn::parse_quote!({ let __g = #val; #(#reset)* return __g; });
            }
            Expr::Try(t) => {
                let inner = (*t.expr).clone();
                *e = syn::parse_quote!((match #inner { Ok(__v) => __v, Err(__e) => { #(#reset)* return Err(__e); } }));
            }
            _ => {}
        }
    }
}
// replace the first statement matching `pat` (searching nested blocks in source order) by `marker`
fn mark_guard(b: &mut Block, pat: &[PTok], marker: &Stmt) -> bool {
    struct M<'p> { pat: &'p [PTok], marker: &'p Stmt, done: bool }
    impl<'p> VisitMut for M<'p> {
        fn visit_block_mut(&mut self, b: &mut Block) {
            if self.done { return; }
            for i in 0..b.stmts.len() {
                if match_stmt(self.pat, &b.stmts[i], false).is_some() {
                    b.stmts[i] = self.marker.clone();
                    self.done = true;
                    return;
                }
                visit_mut::visit_stmt_mut(self, &mut b.stmts[i]);
                if self.done { return; }
            }
        }
    }
    let mut m = M { pat, marker, done: false };
    m.visit_block_mut(b);
    m.done
}
fn apply_guard(b: &mut Block, pat: &[PTok], reset: &[Stmt], acquire: &[Stmt], is_fn_body: bool) -> bool {
    let mut at = None;
    for (i, s) in b.stmts.iter().enumerate() {
        if match_stmt(pat, s, false).is_some() {
            at = Some(i);
            break;
        }
    }
    if let Some(i) = at {
        let mut rest: Vec<Stmt> = b.stmts.split_off(i + 1);
        b.stmts.pop(); // the guard statement itself
        b.stmts.extend(acquire.iter().cloned());
        let mut ge = GuardExits { reset: reset.to_vec() };
        for s in rest.iter_mut() {
            ge.visit_stmt_mut(s);
        }
        // normal end of the scope
        let tail_is_value = matches!(rest.last(), Some(Stmt::Expr(_, None)));
        if tail_is_value {
            if let Some(Stmt::Expr(te, None)) = rest.pop() {
                let new_tail: Stmt = Stmt::Expr(syn::parse_quote!({ let __g = #te; #(#reset)* __g }), None);
                rest.push(new_tail);
            }
        } else {
            rest.extend(reset.iter().cloned());
        }
        let _ = is_fn_body;
        b.stmts.extend(rest);
        return true;
    }
    // search nested blocks
    struct Finder<'p> { pat: &'p [PTok], reset: &'p [Stmt], acquire: &'p [Stmt], done: bool }
    impl<'p> VisitMut for Finder<'p> {
        fn visit_block_mut(&mut self, b: &mut Block) {
            if self.done { return; }
            if apply_guard(b, self.pat, self.reset, self.acquire, false) { self.done = true; return; }
        }
        fn visit_expr_mut(&mut self, e: &mut Expr) {
            if self.done { return; }
            visit_mut::visit_expr_mut(self, e);
        }
    }
    let mut f = Finder { pat, reset, acquire, done: false };
    for s in b.stmts.iter_mut() {
        visit_mut::visit_stmt_mut(&mut f, s);
        if f.done { return true; }
    }
    false
}

// loop numbering -------------------------------------------------------------------------------
struct LoopMarker {
    n: usize,
    kinds: Vec<&'static str>,
}
// R16: `loop { if C { break; } REST }` (no other `break` of this loop in REST) is the `while !(C) { REST }` it
// spells out; normalised so that loop clauses written for the `while` form keep their meaning
struct LoopNorm { hits: usize }
struct BreakFinder { found: bool }
impl<'ast> syn::visit::Visit<'ast> for BreakFinder {
    fn visit_expr(&mut self, e: &'ast Expr) {
        match e {
            Expr::Break(_) => { self.found = true; }
            // a nested loop owns its breaks; a closure / async block cannot break out
            Expr::While(_) | Expr::Loop(_) | Expr::ForLoop(_) | Expr::Closure(_) | Expr::Async(_) => {}
            _ => syn::visit::visit_expr(self, e),
        }
    }
}
impl VisitMut for LoopNorm {
    fn visit_expr_mut(&mut self, e: &mut Expr) {
        visit_mut::visit_expr_mut(self, e);
        let mut repl: Option<Expr> = None;
        if let Expr::Loop(l) = e {
            if l.label.is_none() && !l.body.stmts.is_empty() {
                let first_is_guard = match &l.body.stmts[0] {
                    Stmt::Expr(Expr::If(i), _) => i.else_branch.is_none() && i.then_branch.stmts.len() == 1
                        && matches!(&i.then_branch.stmts[0], Stmt::Expr(Expr::Break(b), _) if b.label.is_none() && b.expr.is_none())
                        && !matches!(&*i.cond, Expr::Let(_)),
                    _ => false,
                };
                if first_is_guard {
                    let mut bf = BreakFinder { found: false };
                    for st in l.body.stmts.iter().skip(1) { syn::visit::Visit::visit_stmt(&mut bf, st); }
                    if !bf.found {
                        if let Stmt::Expr(Expr::If(i), _) = &l.body.stmts[0] {
                            let c = (*i.cond).clone();
                            let rest: Vec<Stmt> = l.body.stmts.iter().skip(1).cloned().collect();
                            repl = Some(syn::parse_quote!(while !(#c) { #(#rest)* }));
                        }
                    }
                }
            }
        }
        if let Some(r) = repl { *e = r; self.hits += 1; }
    }
}
impl VisitMut for LoopMarker {
    fn visit_expr_mut(&mut self, e: &mut Expr) {
        match e {
            Expr::While(w) => {
                let id = syn::Ident::new(&format!("__vloop_{}", self.n), Span::call_site());
                self.n += 1;
                self.kinds.push("while");
                let c = (*w.cond).clone();
                w.cond = Box::new(syn::parse_quote!(#id(#c)));
                // visit body only (cond was wrapped)
                visit_mut::visit_block_mut(self, &mut w.body);
                return;
            }
            Expr::ForLoop(f) => {
                let id = syn::Ident::new(&format!("__vloop_{}", self.n), Span::call_site());
                self.n += 1;
                self.kinds.push("for");
                let c = (*f.expr).clone();
                f.expr = Box::new(syn::parse_quote!(#id(#c)));
                visit_mut::visit_block_mut(self, &mut f.body);
                return;
            }
            Expr::Loop(l) => {
                let lt = syn::Lifetime::new(&format!("'__vloop_{}", self.n), Span::call_site());
                self.n += 1;
                self.kinds.push("loop");
                if l.label.is_some() {
                    die("unsupported construct: labelled loop in target");
                }
                l.label = Some(syn::Label { name: lt, colon_token: Default::default() });
                visit_mut::visit_block_mut(self, &mut l.body);
                return;
            }
            _ => {}
        }
        visit_mut::visit_expr_mut(self, e);
    }
}

// fragment / splice anchors -----------------------------------------------------------------------
struct FragFinder<'a> {
    from: &'a [PTok],
    to: &'a [PTok],
    found: Option<Vec<Stmt>>,
}
impl<'a> syn::visit::Visit<'_> for FragFinder<'a> {
    fn visit_block(&mut self, b: &Block) {
        if self.found.is_some() {
            return;
        }
        for (i, s) in b.stmts.iter().enumerate() {
            if match_stmt(self.from, s, true).is_some() {
                for (j, s2) in b.stmts.iter().enumerate().skip(i) {
                    if match_stmt(self.to, s2, true).is_some() {
                        self.found = Some(b.stmts[i..=j].to_vec());
                        return;
                    }
                }
            }
        }
        syn::visit::visit_block(self, b);
    }
}

struct SpliceInserter<'a> {
    contains: bool,
    anchor: &'a [PTok],
    place: &'a str,
    nth: usize,
    seen: usize,
    id: usize,
    done: bool,
}
impl<'a> VisitMut for SpliceInserter<'a> {
    // source order: a statement is tested before the statements nested inside it, and before
    // the statements that follow it
    fn visit_block_mut(&mut self, b: &mut Block) {
        if self.done {
            return;
        }
        let mut i = 0;
        while i < b.stmts.len() {
            if self.contains {
                // innermost statement containing the pattern: nested statements first
                if !pat::stmt_contains(self.anchor, &b.stmts[i]) { i += 1; continue; }
                let seen_before = self.seen;
                visit_mut::visit_stmt_mut(self, &mut b.stmts[i]);
                if self.done { return; }
                if self.seen == seen_before {
                    // no nested statement contains it: this is the innermost one
                    if self.seen == self.nth {
                        let id = syn::Ident::new(&format!("__vsplice_{}", self.id), Span::call_site());
                        let marker: Stmt = syn::parse_quote!(#id(););
                        match self.place {
                            "before" => b.stmts.insert(i, marker),
                            "after" => b.stmts.insert(i + 1, marker),
                            "replace" => b.stmts[i] = marker,
                            _ => {}
                        }
                        self.done = true;
                        return;
                    }
                    self.seen += 1;
                }
                i += 1;
                continue;
            }
            if match_stmt(self.anchor, &b.stmts[i], true).is_some() {
                if self.seen == self.nth {
                    let id = syn::Ident::new(&format!("__vsplice_{}", self.id), Span::call_site());
                    let marker: Stmt = syn::parse_quote!(#id(););
                    match self.place {
                        "before" => b.stmts.insert(i, marker),
                        "after" => b.stmts.insert(i + 1, marker),
                        "replace" => b.stmts[i] = marker,
                        _ => {}
                    }
                    self.done = true;
                    return;
                }
                self.seen += 1;
            }
            visit_mut::visit_stmt_mut(self, &mut b.stmts[i]);
            if self.done {
                return;
            }
            i += 1;
        }
    }
}

// clause handling --------------------------------------------------------------------------------
fn split_clauses(text: &str) -> Vec<String> {
    let chars: Vec<char> = text.chars().collect();
    let mut out = Vec::new();
    let mut cur = String::new();
    let mut depth = 0i32;
    let mut i = 0;
    while i < chars.len() {
        let c = chars[i];
        // line comments
        if c == '/' && i + 1 < chars.len() && chars[i + 1] == '/' {
            while i < chars.len() && chars[i] != '\n' {
                cur.push(chars[i]);
                i += 1;
            }
            continue;
        }
        match c {
            '(' | '[' | '{' => depth += 1,
            ')' | ']' | '}' => depth -= 1,
            '|' if depth == 0 => {
                // quantifier binder `forall|...|`, `exists|...|`, `choose|...|`
                let prev: String = cur.trim_end().chars().rev().take(6).collect::<String>().chars().rev().collect();
                if prev.ends_with("forall") || prev.ends_with("exists") || prev.ends_with("choose") {
                    cur.push(c);
                    i += 1;
                    while i < chars.len() && chars[i] != '|' {
                        cur.push(chars[i]);
                        i += 1;
                    }
                    if i < chars.len() {
                        cur.push('|');
                        i += 1;
                    }
                    continue;
                }
            }
            ',' if depth == 0 => {
                if !cur.trim().is_empty() {
                    out.push(cur.trim().to_string());
                }
                cur = String::new();
                i += 1;
                continue;
            }
            _ => {}
        }
        cur.push(c);
        i += 1;
    }
    if !cur.trim().is_empty() {
        out.push(cur.trim().to_string());
    }
    out
}

#[derive(Clone)]
struct Oblig {
    name: String,
    kind: String,
    first: usize,
    last: usize,
    text: String,
    target: String,
    optional: bool,
}

/// Emits `kw` + clauses, one clause per line group; returns text and (k, first_off, last_off, text)
fn clause_block(kw: &str, text: &str, indent: &str) -> (String, Vec<(usize, usize, usize, String)>) {
    let mut out = String::new();
    let mut idx = Vec::new();
    let clauses = split_clauses(text);
    if clauses.is_empty() {
        return (out, idx);
    }
    out.push_str(&format!("{}{}\n", indent, kw));
    let mut line = 1usize; // offset within this block (0-based line of next write)
    for (k, c) in clauses.iter().enumerate() {
        let first = line;
        for l in c.lines() {
            out.push_str(&format!("{}    {}\n", indent, l.trim_end()));
            line += 1;
        }
        // put the separating comma on the last line of the clause
        let trimmed_len = out.trim_end_matches('\n').len();
        out.truncate(trimmed_len);
        out.push_str(",\n");
        idx.push((k, first, line - 1, c.clone()));
    }
    (out, idx)
}

const LOOP_KW: [&str; 4] = ["invariant_except_break", "invariant", "ensures", "decreases"];

fn loop_block(text: &str) -> (String, Vec<(String, usize, usize, String)>) {
    // split into keyword sections
    let mut sections: Vec<(String, String)> = Vec::new();
    for line in text.lines() {
        let t = line.trim_start();
        let mut matched = false;
        for kw in LOOP_KW.iter() {
            if t.starts_with(kw)
                && t[kw.len()..].chars().next().map_or(true, |c| c.is_whitespace())
            {
                sections.push((kw.to_string(), t[kw.len()..].to_string()));
                matched = true;
                break;
            }
        }
        if !matched {
            if let Some(last) = sections.last_mut() {
                last.1.push('\n');
                last.1.push_str(line);
            } else if !t.is_empty() {
                die(&format!("loop clause text before a keyword: {}", t));
            }
        }
    }
    let mut out = String::new();
    let mut idx = Vec::new();
    let mut line = 0usize;
    for (kw, body) in sections {
        let (txt, cl) = clause_block(&kw, &body, "");
        for (k, f, l, c) in cl {
            idx.push((format!("{}[{}]", kw, k), line + f, line + l, c));
        }
        line += txt.lines().count();
        out.push_str(&txt);
    }
    (out, idx)
}

// ---------------------------------------------------------------------------------------------

struct Ctx {
    repo: String,
    files: HashMap<String, syn::File>,
    srcs: HashMap<String, String>,
    // names of functions that have a definition in the generated file (prelude stubs, @raw items,
    // targets): a call to one of them is a call to a CONTRACT; anything else found in the same source
    // file is a helper without a contract
    predefined: std::collections::BTreeSet<String>,
}

impl Ctx {
    fn file(&mut self, rel: &str) -> &syn::File {
        if !self.files.contains_key(rel) {
            let p = format!("{}/{}", self.repo, rel);
            let src = match std::fs::read_to_string(&p) {
                Ok(s) => s,
                Err(e) => die(&format!("lost anchor: cannot read {}: {}", p, e)),
            };
            let f = match syn::parse_file(&src) {
                Ok(f) => f,
                Err(e) => die(&format!("cannot parse {}: {}", p, e)),
            };
            self.files.insert(rel.to_string(), f);
            self.srcs.insert(rel.to_string(), src);
        }
        &self.files[rel]
    }
}

fn print_plain(ts: TokenStream) -> String {
    let e1 = BTreeMap::new();
    let e2 = BTreeMap::new();
    let mut p = print::Printer::new(&e1, &e2);
    p.stream(ts, false);
    p.out
}

struct Emitted {
    text: String,
    obligs: Vec<Oblig>, // lines relative to text (1-based)
    info: serde_json::Value,
}

fn strip_vis_and_attrs_sig(sig: &mut syn::Signature, drop_generics: &[String], keep_where: bool) {
    sig.asyncness = None;
    sig.constness = None;
    if !keep_where {
        sig.generics.where_clause = None;
    }
    let params: Vec<syn::GenericParam> = sig
        .generics
        .params
        .iter()
        .filter(|p| match p {
            syn::GenericParam::Type(t) => !drop_generics.contains(&t.ident.to_string()),
            syn::GenericParam::Lifetime(_) => true,
            _ => true,
        })
        .cloned()
        .collect();
    sig.generics.params = params.into_iter().collect();
    if sig.generics.params.is_empty() {
        sig.generics.lt_token = None;
        sig.generics.gt_token = None;
    }
    for a in sig.inputs.iter_mut() {
        match a {
            syn::FnArg::Typed(t) => t.attrs.clear(),
            syn::FnArg::Receiver(r) => r.attrs.clear(),
        }
    }
}

// R15: a helper of the same source file that has no contract in the unit (typically introduced by an
// extract-method refactoring) is INLINED at its call sites when that is semantics-preserving by
// construction: no `return`, no `?`, no loop in its body, not recursive, receiver (if any) is the
// caller's own `self`. The caller is then verified against the helper's real code.
struct HelperBody { params: Vec<(syn::Pat, syn::Type)>, block: syn::Block, has_self: bool, early_exit: bool, has_return: bool }
struct InlineScan { bad: bool, early_exit: bool, has_return: bool, own: String }
impl<'ast> syn::visit::Visit<'ast> for InlineScan {
    fn visit_expr(&mut self, e: &'ast Expr) {
        match e {
            // `return` / `?` leave the HELPER: equivalent after inlining only where the call is the caller's own result (tail position)
            // `return Err(..)` leaves the helper with an error - at a `helper(..)?` call site that is what `?`
            // does with it; any other `return` hands a VALUE back to the caller and is not an exit of the caller
            Expr::Return(r) => {
                self.early_exit = true;
                let is_err = match &r.expr {
                    Some(x) => match &**x { Expr::Call(c) => matches!(&*c.func, Expr::Path(p) if p.path.is_ident("Err")), _ => false },
                    None => false,
                };
                if !is_err { self.has_return = true; }
            }
            Expr::Try(_) => self.early_exit = true,
            Expr::While(_) | Expr::Loop(_) | Expr::ForLoop(_) | Expr::Break(_) | Expr::Continue(_) | Expr::Closure(_) => self.bad = true,
            Expr::Call(c) => { if let Expr::Path(p) = &*c.func { if p.path.segments.last().map(|x| x.ident == self.own).unwrap_or(false) { self.bad = true; } } }
            Expr::MethodCall(m) => { if m.method == self.own { self.bad = true; } }
            Expr::Macro(m) => { let n = m.mac.path.segments.last().map(|x| x.ident.to_string()).unwrap_or_default(); if n == "panic" || n == "unreachable" || n == "todo" || n == "unimplemented" { } }
            _ => {}
        }
        syn::visit::visit_expr(self, e);
    }
}
fn collect_inlinable(items: &[syn::Item], impl_of: Option<&String>, skip: &std::collections::BTreeSet<String>) -> BTreeMap<String, HelperBody> {
    let mut out: BTreeMap<String, HelperBody> = BTreeMap::new();
    let mut dup: std::collections::BTreeSet<String> = Default::default();
    let mut consider = |sig: &syn::Signature, block: &syn::Block, out: &mut BTreeMap<String, HelperBody>| {
        let name = sig.ident.to_string();
        if skip.contains(&name) { return; }
        // hard exclusions on the SOURCE body (constructs the lowering itself cannot take); closures and
        // early exits are judged on the LOWERED body later (rules may have turned them into matches)
        {
            struct Pre { bad: bool }
            impl<'ast> syn::visit::Visit<'ast> for Pre {
                fn visit_expr(&mut self, e: &'ast Expr) {
                    if matches!(e, Expr::While(_) | Expr::Loop(_) | Expr::ForLoop(_) | Expr::Break(_) | Expr::Continue(_) | Expr::Async(_) | Expr::Unsafe(_) | Expr::Yield(_)) { self.bad = true; }
                    syn::visit::visit_expr(self, e);
                }
            }
            let mut pre = Pre { bad: false };
            syn::visit::Visit::visit_block(&mut pre, block);
            if pre.bad { return; }
        }
        let mut params = Vec::new();
        let mut has_self = false;
        for a in &sig.inputs {
            match a {
                syn::FnArg::Receiver(_) => has_self = true,
                syn::FnArg::Typed(pt) => params.push(((*pt.pat).clone(), (*pt.ty).clone())),
            }
        }
        if out.contains_key(&name) { dup.insert(name.clone()); }
        out.insert(name, HelperBody { params, block: block.clone(), has_self, early_exit: false, has_return: false });
    };
    for it in items {
        match it {
            syn::Item::Fn(f) => consider(&f.sig, &f.block, &mut out),
            syn::Item::Impl(im) => {
                if im.trait_.is_some() { continue; }
                if let Some(want) = impl_of {
                    let base: String = want.split('<').next().unwrap_or("").trim().to_string();
                    if type_last_ident(&im.self_ty) != base { continue; }
                } else { continue; }
                for ii in &im.items { if let syn::ImplItem::Fn(f) = ii { consider(&f.sig, &f.block, &mut out); } }
            }
            _ => {}
        }
    }
    for d in dup { out.remove(&d); }
    out
}
struct Inliner<'a> { helpers: &'a BTreeMap<String, HelperBody>, inlined: Vec<String>, n: usize, tail: bool }
impl<'a> Inliner<'a> {
    fn build(&mut self, name: &str, args: Vec<Expr>) -> Option<Expr> { self.build_r(name, args, false) }
    // `renamed_self`: the caller is a by-value `mut self` function whose `self` was rebound as `__self`
    fn build_r(&mut self, name: &str, args: Vec<Expr>, renamed_self: bool) -> Option<Expr> {
        let h = self.helpers.get(name)?;
        if h.params.len() != args.len() { return None; }
        if h.early_exit && !self.tail { return None; }
        let k = self.n; self.n += 1;
        let mut stmts: Vec<Stmt> = Vec::new();
        // arguments are evaluated in the caller's scope, in order, before any parameter is bound
        let mut tmps = Vec::new();
        for (i, a) in args.into_iter().enumerate() {
            let id = syn::Ident::new(&format!("__arg{}_{}", k, i), Span::call_site());
            stmts.push(syn::parse_quote!(let #id = #a;));
            tmps.push(id);
        }
        for ((pat, ty), id) in h.params.iter().zip(tmps.iter()) {
            // `impl Trait` parameter types cannot annotate a `let`
            if matches!(ty, syn::Type::ImplTrait(_)) { stmts.push(syn::parse_quote!(let #pat = #id;)); }
            else { stmts.push(syn::parse_quote!(let #pat: #ty = #id;)); }
        }
        fn rs(ts: TokenStream) -> TokenStream {
            ts.into_iter().map(|tt| match tt {
                proc_macro2::TokenTree::Ident(id) if id == "self" => proc_macro2::TokenTree::Ident(syn::Ident::new("__self", id.span())),
                proc_macro2::TokenTree::Group(g) => {
                    let mut ng = proc_macro2::Group::new(g.delimiter(), rs(g.stream()));
                    ng.set_span(g.span());
                    proc_macro2::TokenTree::Group(ng)
                }
                o => o,
            }).collect()
        }
        let body: syn::Block = if renamed_self {
            match syn::parse2::<Block>(rs(h.block.to_token_stream())) { Ok(b) => b, Err(_) => return None }
        } else { h.block.clone() };
        self.inlined.push(name.to_string());
        Some(syn::parse_quote!({ #(#stmts)* #body }))
    }
}
impl<'a> Inliner<'a> {
    // the expressions whose value IS the function's result
    fn tail_block(&mut self, b: &mut Block) {
        if let Some(Stmt::Expr(e, None)) = b.stmts.last_mut() { self.tail_expr(e); }
    }
    fn tail_expr(&mut self, e: &mut Expr) {
        match e {
            Expr::If(i) => {
                self.tail_block(&mut i.then_branch);
                if let Some((_, el)) = &mut i.else_branch { self.tail_expr(el); }
            }
            Expr::Block(b) => self.tail_block(&mut b.block),
            Expr::Match(m) => { for a in m.arms.iter_mut() { self.tail_expr(&mut a.body); } }
            Expr::Paren(p) => self.tail_expr(&mut p.expr),
            Expr::Await(a) => self.tail_expr(&mut a.base),
            Expr::Call(_) | Expr::MethodCall(_) => { let was = self.tail; self.tail = true; self.try_inline(e); self.tail = was; }
            _ => {}
        }
    }
    fn try_inline(&mut self, e: &mut Expr) {
        let mut repl: Option<Expr> = None;
        match e {
            Expr::Call(c) => {
                if let Expr::Path(p) = &*c.func {
                    let segs: Vec<String> = p.path.segments.iter().map(|x| x.ident.to_string()).collect();
                    let ok = segs.len() == 1 || (segs.len() == 2 && segs[0] == "Self");
                    if ok && p.path.segments.iter().all(|x| x.arguments.is_none()) {
                        let name = segs.last().unwrap().clone();
                        if self.helpers.get(&name).map(|h| !h.has_self).unwrap_or(false) {
                            repl = self.build(&name, c.args.iter().cloned().collect());
                        }
                    }
                }
            }
            Expr::MethodCall(m) => {
                let recv_is_self = matches!(&*m.receiver, Expr::Path(p) if p.path.is_ident("self"));
                let recv_is_renamed = matches!(&*m.receiver, Expr::Path(p) if p.path.is_ident("__self"));
                let name = m.method.to_string();
                if (recv_is_self || recv_is_renamed) && m.turbofish.is_none() && self.helpers.get(&name).map(|h| h.has_self).unwrap_or(false) {
                    repl = self.build_r(&name, m.args.iter().cloned().collect(), recv_is_renamed);
                }
            }
            _ => {}
        }
        if let Some(r) = repl { *e = r; }
    }
}
impl<'a> VisitMut for Inliner<'a> {
    fn visit_expr_mut(&mut self, e: &mut Expr) {
        visit_mut::visit_expr_mut(self, e);
        self.try_inline(e);
        // `helper(..)?` where the helper's only early exits are `?`: an error leaves the helper and is
        // then propagated by the caller's `?` - after inlining it leaves the caller directly, with the
        // same value (one error type after lowering)
        if let Expr::Try(t) = e {
            let name = match &*t.expr {
                Expr::Call(c) => match &*c.func { Expr::Path(p) => p.path.segments.last().map(|x| x.ident.to_string()), _ => None },
                Expr::MethodCall(m) => Some(m.method.to_string()),
                _ => None,
            };
            if let Some(n) = name {
                if self.helpers.get(&n).map(|h| h.early_exit && !h.has_return).unwrap_or(false) {
                    let was = self.tail; self.tail = true; self.try_inline(&mut t.expr); self.tail = was;
                }
            }
        }
    }
}

fn emit_target(ctx: &mut Ctx, unit: &Unit, t: &Target) -> Emitted {
    let file = ctx.file(&t.file).clone();
    let mut found = Vec::new();
    find_fn_in_items(&file.items, t, &mut found);
    if found.is_empty() {
        die(&format!(
            "lost anchor: target {} — fn {} (impl {:?}, trait {:?}) not found in {}",
            t.name, t.fn_name, t.impl_of, t.trait_of, t.file
        ));
    }
    if found.len() > 1 {
        die(&format!(
            "ambiguous anchor: target {} matches {} functions in {}",
            t.name,
            found.len(),
            t.file
        ));
    }
    let f = found.pop().unwrap();
    let mut block = f.block.clone();
    let mut sig = f.sig.clone();
    let mut surroundings = serde_json::Value::Null;

    // fragment selection (on the source text, before lowering)
    if let (Some((fs, from)), Some((tsrc, to))) = (&t.from, &t.to) {
        let mut ff = FragFinder { from, to, found: None };
        syn::visit::Visit::visit_block(&mut ff, &block);
        match ff.found {
            Some(stmts) => {
                let total = count_stmts(&block);
                let kept: usize = stmts.iter().map(count_stmt).sum();
                surroundings = json!({
                    "fragment_from": fs, "fragment_to": tsrc,
                    "statements_in_function": total, "statements_in_fragment": kept,
                    "note": "statements of the function outside the fragment are unverified surroundings"
                });
                block.stmts = stmts;
            }
            None => die(&format!(
                "lost anchor: target {} — fragment `{}` .. `{}` not found in {}::{}",
                t.name, fs, tsrc, t.file, t.fn_name
            )),
        }
    }

    // splice markers
    let mut splice_text: BTreeMap<usize, String> = BTreeMap::new();
    let mut splice_names: BTreeMap<usize, Option<String>> = BTreeMap::new();
    for (k, sp) in t.splices.iter().enumerate() {
        splice_text.insert(k, sp.text.clone());
        splice_names.insert(k, sp.obligation.clone());
        let id = syn::Ident::new(&format!("__vsplice_{}", k), Span::call_site());
        let marker: Stmt = syn::parse_quote!(#id(););
        match sp.place.as_str() {
            "start" => block.stmts.insert(0, marker),
            "tail" => {
                // a statement-position block/match that ends the fragment must not become the value
                if let Some(Stmt::Expr(e, semi @ None)) = block.stmts.last_mut() {
                    if matches!(e, Expr::Match(_) | Expr::If(_) | Expr::Block(_) | Expr::While(_) | Expr::Loop(_) | Expr::ForLoop(_)) {
                        *semi = Some(Default::default());
                    }
                }
                block.stmts.push(marker)
            }
            "exits" => {
                // at the normal end (as `tail`) AND before every `return` statement: for hints that speak only
                // about self / old(self) / the parameters and must hold whichever way the function is left
                struct RetMark { marker: Stmt }
                impl VisitMut for RetMark {
                    fn visit_block_mut(&mut self, b: &mut Block) {
                        visit_mut::visit_block_mut(self, b);
                        let mut out: Vec<Stmt> = Vec::with_capacity(b.stmts.len());
                        for st in b.stmts.drain(..) {
                            if matches!(&st, Stmt::Expr(Expr::Return(_), _)) { out.push(self.marker.clone()); }
                            out.push(st);
                        }
                        b.stmts = out;
                    }
                    fn visit_expr_closure_mut(&mut self, _c: &mut syn::ExprClosure) {}
                }
                let mut rm = RetMark { marker: marker.clone() };
                rm.visit_block_mut(&mut block);
                if let Some(Stmt::Expr(e, semi @ None)) = block.stmts.last_mut() {
                    if matches!(e, Expr::Match(_) | Expr::If(_) | Expr::Block(_) | Expr::While(_) | Expr::Loop(_) | Expr::ForLoop(_)) {
                        *semi = Some(Default::default());
                    }
                }
                if !matches!(block.stmts.last(), Some(Stmt::Expr(Expr::Return(_), _))) { block.stmts.push(marker) }
            }
            "end" => {
                // before a tail expression if there is one
                let n = block.stmts.len();
                let tail = matches!(block.stmts.last(), Some(Stmt::Expr(_, None)));
                if tail {
                    block.stmts.insert(n - 1, marker)
                } else {
                    block.stmts.push(marker)
                }
            }
            "lowered-before" | "lowered-after" => {}
            "ret" => {
                // the function's tail expression is bound to `__ret` so that a proof can talk about
                // the value being returned: `E` -> `let __ret = E; <proof> __ret`
                match block.stmts.pop() {
                    Some(Stmt::Expr(e, None)) => {
                        block.stmts.push(syn::parse_quote!(let __ret = #e;));
                        block.stmts.push(marker);
                        block.stmts.push(Stmt::Expr(syn::parse_quote!(__ret), None));
                    }
                    _ => die(&format!("lost anchor: target {} — `@proof ret` needs a tail expression", t.name)),
                }
            }
            _ => {
                let mut ins = SpliceInserter {
                    contains: sp.contains,
                    anchor: &sp.anchor,
                    place: &sp.place,
                    nth: sp.nth,
                    seen: 0,
                    id: k,
                    done: false,
                };
                ins.visit_block_mut(&mut block);
                if !ins.done {
                    die(&format!(
                        "lost anchor: target {} — splice anchor `{}` (#{}) not found",
                        t.name, sp.anchor_src, sp.nth
                    ));
                }
            }
        }
    }

    // R14 guards: the guard statement is located on the SOURCE statements and replaced by a marker;
    // the exits of its scope are rewritten after lowering (so that `return` / `?` introduced by
    // lowering rules are covered too)
    let mut guard_jobs: Vec<(Vec<PTok>, Vec<Stmt>, Vec<Stmt>)> = Vec::new();
    {
        let visible = unit.visible(&t.spec_file);
        let mut all: Vec<&Rule> = t.rules.iter().collect();
        all.extend(unit.rules.iter().filter(|r| visible.contains(&r.file)));
        all.sort_by_key(|r| r.fallback);
        for (gi, r) in all.iter().filter(|r| r.kind == "guard").enumerate() {
            let ts = match instantiate(&r.tpl, &pat::Binds::new()) { Ok(t) => t, Err(m) => die(&format!("{}: {}", r.origin, m)) };
            // `RESET ;; ACQUIRE`: ACQUIRE (optional) replaces the guard statement itself
            let toks: Vec<proc_macro2::TokenTree> = ts.into_iter().collect();
            let mut split = None;
            for i in 0..toks.len().saturating_sub(1) {
                if let (proc_macro2::TokenTree::Punct(a), proc_macro2::TokenTree::Punct(b)) = (&toks[i], &toks[i + 1]) {
                    if a.as_char() == ';' && b.as_char() == ';' { split = Some(i); break; }
                }
            }
            let (reset_ts, acq_ts): (TokenStream, TokenStream) = match split {
                Some(i) => (toks[..=i].iter().cloned().collect(), toks[i + 2..].iter().cloned().collect()),
                None => (toks.iter().cloned().collect(), TokenStream::new()),
            };
            let blk: Block = match syn::parse2(quote!({ #reset_ts })) { Ok(b) => b, Err(e) => die(&format!("{}: guard reset does not parse: {}", r.origin, e)) };
            let acq: Block = match syn::parse2(quote!({ #acq_ts })) { Ok(b) => b, Err(e) => die(&format!("{}: guard acquire does not parse: {}", r.origin, e)) };
            let marker_src = format!("__vguard_{}();", gi);
            let marker: Stmt = syn::parse_str(&marker_src).unwrap();
            let applied = mark_guard(&mut block, &r.pat, &marker);
            if !applied && r.required {
                die(&format!("lost anchor: target {} — guard statement not found: {}", t.name, r.src));
            }
            if applied {
                guard_jobs.push((pat::parse_pattern(&marker_src).unwrap(), blk.stmts.clone(), acq.stmts.clone()));
            }
        }
    }
    // lowering
    let mut rules: Vec<&Rule> = Vec::new();
    rules.extend(t.rules.iter());
    let visible = unit.visible(&t.spec_file);
    rules.extend(unit.rules.iter().filter(|r| visible.contains(&r.file)));
    rules.sort_by_key(|r| r.fallback); // (stable) generic fallbacks after every specific rule
    let n_rules = rules.len();
    // by-value `mut self` receiver (unsupported by Verus): `self` + `let mut __self = self;` + rename
    let mut_self = matches!(sig.inputs.first(), Some(syn::FnArg::Receiver(r)) if r.reference.is_none() && r.mutability.is_some());
    if mut_self && t.sig.is_none() {
        if let Some(syn::FnArg::Receiver(r)) = sig.inputs.first_mut() {
            r.mutability = None;
        }
        fn rename_self(ts: TokenStream) -> TokenStream {
            ts.into_iter().map(|tt| match tt {
                proc_macro2::TokenTree::Ident(id) if id == "self" => proc_macro2::TokenTree::Ident(syn::Ident::new("__self", id.span())),
                proc_macro2::TokenTree::Group(g) => {
                    let mut ng = proc_macro2::Group::new(g.delimiter(), rename_self(g.stream()));
                    ng.set_span(g.span());
                    proc_macro2::TokenTree::Group(ng)
                }
                o => o,
            }).collect()
        }
        let renamed = rename_self(block.to_token_stream());
        block = match syn::parse2::<Block>(renamed) { Ok(b) => b, Err(e) => die(&format!("mut self lowering: {}", e)) };
        block.stmts.insert(0, syn::parse_quote!(let mut __self = self;));
    }
    let mut drop_g = unit.drop_generics.clone();
    drop_g.extend(t.drop_generics.iter().cloned());
    let mut lw = Lower { forloops: 0, drop_generics: drop_g.clone(), rules, counts: vec![0; n_rules], notes: BTreeMap::new() };
    lw.visit_block_mut(&mut block);
    for (mp, reset, acq) in &guard_jobs {
        if !apply_guard(&mut block, mp, reset, acq, true) {
            die(&format!("internal: guard marker lost in target {}", t.name));
        }
    }
    // R15: calls that survived the lowering rules and name a contract-less helper of the same source
    // file are inlined (see Inliner); the helper's body is lowered with the same rules first
    let mut inlined_helpers: Vec<String> = Vec::new();
    if !t.any_impl {
        let mut skip = ctx.predefined.clone();
        skip.insert(t.fn_name.clone());
        let mut helpers = collect_inlinable(&file.items, t.impl_of.as_ref(), &skip);
        if !helpers.is_empty() {
            let mut bad: Vec<String> = Vec::new();
            for (name, h) in helpers.iter_mut() {
                let mut lw2 = Lower { forloops: 1000, drop_generics: drop_g.clone(), rules: lw.rules.clone(), counts: vec![0; n_rules], notes: BTreeMap::new() };
                lw2.visit_block_mut(&mut h.block);
                for (_, ty) in h.params.iter_mut() { lw2.visit_type_mut(ty); }
                // eligibility, on the lowered body (closures that the rules turned into matches are gone)
                let mut sc = InlineScan { bad: false, early_exit: false, has_return: false, own: name.clone() };
                syn::visit::Visit::visit_block(&mut sc, &h.block);
                h.early_exit = sc.early_exit;
                h.has_return = sc.has_return;
                if sc.bad { bad.push(name.clone()); }
            }
            for b in bad { helpers.remove(&b); }
            for _ in 0..3 {
                let mut il = Inliner { helpers: &helpers, inlined: Vec::new(), n: inlined_helpers.len() * 10, tail: false };
                il.visit_block_mut(&mut block);
                // helpers with `return` / `?`: only where the call is the function's own result (and the target is a whole function)
                if t.from.is_none() { il.tail_block(&mut block); }
                if il.inlined.is_empty() { break; }
                inlined_helpers.extend(il.inlined);
            }
            if !inlined_helpers.is_empty() { lw.note("R15 contract-less helper of the same file inlined at its call site"); }
        }
    }
    // splices anchored on the LOWERED body (statements produced by @stmt/@forloop templates)
    for (k, sp) in t.splices.iter().enumerate() {
        let place = match sp.place.as_str() { "lowered-before" => "before", "lowered-after" => "after", _ => continue };
        let mut ins = SpliceInserter { contains: sp.contains, anchor: &sp.anchor, place, nth: sp.nth, seen: 0, id: k, done: false };
        ins.visit_block_mut(&mut block);
        if !ins.done {
            die(&format!(
                "lost anchor: target {} — splice anchor `{}` (#{}) not found in the lowered body",
                t.name, sp.anchor_src, sp.nth
            ));
        }
    }
    // R17: every plain `let x = ..;` becomes `let mut x = ..;` (and by-value parameters `mut`): R7 lowers
    // interior mutability (`&self` methods of files / locks / atomics) to `&mut self`, so a binding that the
    // source never declares `mut` may be the receiver of a lowered `&mut` call. `mut` changes no behaviour.
    {
        struct LetMut;
        impl VisitMut for LetMut {
            fn visit_local_mut(&mut self, l: &mut syn::Local) {
                fn mk(p: &mut syn::Pat) {
                    match p {
                        syn::Pat::Ident(pi) if pi.by_ref.is_none() && pi.subpat.is_none() => { pi.mutability = Some(Default::default()); }
                        syn::Pat::Type(pt) => mk(&mut pt.pat),
                        _ => {}
                    }
                }
                mk(&mut l.pat);
                visit_mut::visit_local_mut(self, l);
            }
        }
        LetMut.visit_block_mut(&mut block);
        if t.sig.is_none() {
            for a in sig.inputs.iter_mut() {
                if let syn::FnArg::Typed(pt) = a {
                    if !matches!(&*pt.ty, syn::Type::Reference(_)) {
                        if let syn::Pat::Ident(pi) = &mut *pt.pat { if pi.by_ref.is_none() { pi.mutability = Some(Default::default()); } }
                    }
                }
            }
        }
    }
    if sig.asyncness.is_some() {
        lw.note("R1 async fn -> fn");
    }
    if mut_self && t.sig.is_none() {
        lw.note("by-value `mut self` -> `self` rebound as `let mut __self = self`");
    }
    // a generic parameter that a type rule maps to a concrete type (`@type R =>> RetS`) leaves the
    // parameter list, but (unlike @dropgeneric) stays in argument lists so that the rule can rewrite it
    let mut sig_drop = drop_g.clone();
    for r in lw.rules.iter() {
        if r.kind == "type" && r.pat.len() == 1 {
            if let PTok::Tok(proc_macro2::TokenTree::Ident(id)) = &r.pat[0] {
                sig_drop.push(id.to_string());
            }
        }
    }
    strip_vis_and_attrs_sig(&mut sig, &sig_drop, t.keep_where);
    lw.visit_signature_mut(&mut sig);
    if let Some(r) = &t.rename {
        sig.ident = syn::Ident::new(r, Span::call_site());
    }
    for (i, r) in lw.rules.iter().enumerate() {
        if r.required && lw.counts[i] == 0 {
            die(&format!(
                "lost anchor: target {} — required rule never applied: {} ({})",
                t.name, r.src, r.origin
            ));
        }
    }

    // loops
    let mut ln = LoopNorm { hits: 0 };
    ln.visit_block_mut(&mut block);
    if ln.hits > 0 { lw.note("R16 loop { if C { break; } .. } -> while !(C) { .. }"); }
    let mut lm = LoopMarker { n: 0, kinds: Vec::new() };
    lm.visit_block_mut(&mut block);
    let n_loops = lm.n;
    let mut loop_text: BTreeMap<usize, String> = BTreeMap::new();
    let mut loop_idx: BTreeMap<usize, Vec<(String, usize, usize, String)>> = BTreeMap::new();
    for (n, txt) in &t.loops {
        if *n >= n_loops {
            die(&format!(
                "lost anchor: target {} — loop {} does not exist (function has {} loops)",
                t.name, n, n_loops
            ));
        }
        // clauses with plain `invariant`s only are written for a loop whose exits are its CONDITION: on a
        // `loop { .. break .. }` they would lose the exit condition and fail for no semantic reason
        if lm.kinds[*n] == "loop" && !txt.contains("invariant_except_break") && !txt.contains("ensures") {
            die(&format!(
                "lost anchor: target {} — loop {} is now a `loop {{ .. break .. }}`; its clauses were written for a loop that ends by its condition",
                t.name, n
            ));
        }
        let (lt, idx) = loop_block(txt);
        loop_text.insert(*n, lt);
        loop_idx.insert(*n, idx);
    }

    // signature text
    let mut out = String::new();
    let mut obligs: Vec<Oblig> = Vec::new();
    for a in &t.attrs {
        out.push_str(a);
        out.push('\n');
    }
    let sig_text = if let Some(s) = &t.sig {
        s.clone()
    } else {
        // name the return value
        let mut s2 = sig.clone();
        let ret_name = t.ret.clone();
        let ret_ty = match &s2.output {
            syn::ReturnType::Type(_, ty) => Some((**ty).clone()),
            _ => None,
        };
        s2.output = syn::ReturnType::Default;
        let base = print_plain(s2.to_token_stream());
        match (ret_ty, ret_name) {
            (Some(ty), Some(n)) => format!("pub {} -> ({}: {})", base, n, print_plain(ty.to_token_stream())),
            (Some(ty), None) => format!("pub {} -> {}", base, print_plain(ty.to_token_stream())),
            (None, _) => format!("pub {}", base),
        }
    };
    out.push_str(&sig_text);
    out.push('\n');
    let cur_line = |s: &String| s.matches('\n').count() + 1;
    // vacuity variant (thorough tier): `ensures false` appended to ONE contracted function (named by
    // VEXTRACT_VACUITY; one at a time, because a false postcondition makes every caller vacuous); the
    // driver demands that it FAILS
    let vac_ensures: Option<String> = if std::env::var("VEXTRACT_VACUITY").map(|v| v == t.name).unwrap_or(false) {
        Some(match &t.ensures {
            Some(e) => format!("{},\n    false", e.trim_end().trim_end_matches(',')),
            None => "\n    false".to_string(),
        })
    } else {
        t.ensures.clone()
    };
    let drop_list: Vec<String> = std::env::var("VEXTRACT_DROP").unwrap_or_default().split(';').map(|x| x.trim().to_string()).filter(|x| !x.is_empty()).collect();
    for (kw, txt) in [("requires", &t.requires), ("ensures", &vac_ensures), ("decreases", &t.decreases)] {
        if let Some(txt) = txt {
            // a clause written `? E` is optional: it states something about the SHAPE of the result
            // (fields of the returned value); if it no longer type-checks against the extracted
            // signature the driver re-extracts with the clause replaced by `true` (VEXTRACT_DROP)
            let pre: Vec<String> = split_clauses(txt).into_iter().enumerate().map(|(k, c)| {
                // leading comment lines belong to the clause
                let mut lines: Vec<String> = c.lines().map(|l| l.to_string()).collect();
                let first_code = lines.iter().position(|l| { let t = l.trim_start(); !t.is_empty() && !t.starts_with("//") });
                match first_code {
                    Some(fc) if lines[fc].trim_start().starts_with('?') => {
                        let name = format!("{}/{}/{}[{}]", unit.name, t.name, kw, k);
                        if drop_list.contains(&name) {
                            // (the leading comment lines stay: they may carry `@alt` / `@only` tags)
                            format!("/*?*/\n{}\ntrue /* dropped: no longer typed */", lines[..fc].join("\n"))
                        } else {
                            let l = lines[fc].trim_start().trim_start_matches('?').trim_start().to_string();
                            lines[fc] = l;
                            format!("/*?*/\n{}", lines.join("\n"))
                        }
                    }
                    _ => c,
                }
            }).collect();
            let txt = &pre.join(",\n");
            let base = cur_line(&out);
            let (b, idx) = clause_block(kw, txt, "    ");
            for (k, fl, ll, c) in idx {
                obligs.push(Oblig {
                    name: format!("{}/{}/{}[{}]", unit.name, t.name, kw, k),
                    kind: kw.to_string(),
                    first: base + fl,
                    last: base + ll,
                    text: c.clone(),
                    target: t.name.clone(),
                    optional: c.trim_start().starts_with("/*?*/"),
                });
            }
            out.push_str(&b);
        }
    }
    // body
    let body_base = cur_line(&out);
    let mut pr = print::Printer::new(&loop_text, &splice_text);
    pr.stream(block.to_token_stream(), false);
    let lowered_body = pr.out.clone();
    for (kind, id, first, _last) in &pr.placed {
        match kind.as_str() {
            "loop" => {
                if let Some(idx) = loop_idx.get(id) {
                    for (nm, fl, ll, c) in idx {
                        obligs.push(Oblig {
                            name: format!("{}/{}/loop[{}].{}", unit.name, t.name, id, nm),
                            kind: "loop".to_string(),
                            first: body_base - 1 + first + fl,
                            last: body_base - 1 + first + ll,
                            text: c.clone(),
                            target: t.name.clone(),
                            optional: false,
                        });
                    }
                }
            }
            "splice" => {
                if let Some(Some(nm)) = splice_names.get(id) {
                    obligs.push(Oblig {
                        name: format!("{}/{}/assert@{}", unit.name, t.name, nm),
                        kind: "assert".to_string(),
                        first: body_base - 1 + first,
                        last: body_base - 1 + _last,
                        text: splice_text.get(id).cloned().unwrap_or_default().trim().to_string(),
                        target: t.name.clone(),
                        optional: false,
                    });
                }
            }
            _ => {}
        }
    }
    // every loop with clauses must have been placed
    for n in loop_text.keys() {
        if !pr.placed.iter().any(|(k, id, _, _)| k == "loop" && id == n) {
            die(&format!("internal: loop {} clauses of target {} were not placed", n, t.name));
        }
    }
    if t.any_impl {
        // helper without a contract: only its (lowered) signature is visible to callers
        out = format!("#[verifier::external_body]\n{}{{ unimplemented!() }}", out);
    } else {
        out.push_str(&lowered_body);
    }
    out.push('\n');
    if let Some(tail) = &t.tail {
        out.push_str(tail);
        out.push('\n');
    }

    // crude call graph: identifiers directly followed by an argument list in the lowered body
    // every `name(` / `.name(` / `::name(`: over-approximate callee names for the dependency graph
    fn collect_calls_any(ts: TokenStream, out: &mut std::collections::BTreeSet<String>) {
        let toks: Vec<proc_macro2::TokenTree> = ts.into_iter().collect();
        for i in 0..toks.len() {
            if let proc_macro2::TokenTree::Group(g) = &toks[i] {
                collect_calls_any(g.stream(), out);
                if g.delimiter() == proc_macro2::Delimiter::Parenthesis && i > 0 {
                    if let proc_macro2::TokenTree::Ident(id) = &toks[i - 1] { out.insert(id.to_string()); }
                }
            }
        }
    }
    fn collect_calls(ts: TokenStream, out: &mut std::collections::BTreeSet<String>) {
        // calls that can name a function of the same impl / file: `self.f(..)`, `Self::f(..)`, bare `f(..)`
        let toks: Vec<proc_macro2::TokenTree> = ts.into_iter().collect();
        for i in 0..toks.len() {
            if let proc_macro2::TokenTree::Group(g) = &toks[i] {
                collect_calls(g.stream(), out);
                if g.delimiter() == proc_macro2::Delimiter::Parenthesis && i > 0 {
                    if let proc_macro2::TokenTree::Ident(id) = &toks[i - 1] {
                        let is_punct = |k: usize, c: char| matches!(toks.get(k), Some(proc_macro2::TokenTree::Punct(p)) if p.as_char() == c);
                        let is_ident = |k: usize, s: &str| matches!(toks.get(k), Some(proc_macro2::TokenTree::Ident(x)) if x == s);
                        let ok = if i >= 2 && is_punct(i - 2, '.') {
                            i >= 3 && is_ident(i - 3, "self") && !(i >= 4 && is_punct(i - 4, '.'))
                        } else if i >= 3 && is_punct(i - 2, ':') && is_punct(i - 3, ':') {
                            i >= 4 && is_ident(i - 4, "Self")
                        } else {
                            true
                        };
                        if ok { out.insert(id.to_string()); }
                    }
                }
            }
        }
    }
    let mut calls = std::collections::BTreeSet::new();
    collect_calls(block.to_token_stream(), &mut calls);
    let mut calls_any = std::collections::BTreeSet::new();
    collect_calls_any(block.to_token_stream(), &mut calls_any);
    let emitted_name = match &t.sig {
        Some(sg) => {
            // name after `fn`
            sg.split("fn ").nth(1).map(|r| r.chars().take_while(|c| c.is_alphanumeric() || *c == '_').collect::<String>()).unwrap_or_default()
        }
        None => sig.ident.to_string(),
    };
    let applied: Vec<serde_json::Value> = lw
        .rules
        .iter()
        .enumerate()
        .filter(|(i, _)| lw.counts[*i] > 0)
        .map(|(i, r)| json!({"rule": format!("@{} {}", r.kind, r.src), "count": lw.counts[i], "origin": r.origin}))
        .collect();
    let notes: Vec<serde_json::Value> =
        lw.notes.iter().map(|(k, v)| json!({"pass": k, "count": v})).collect();
    let info = json!({
        "target": t.name,
        "source_file": t.file,
        "function": match (&t.impl_of, &t.trait_of) {
            (Some(i), Some(tr)) => format!("<{} as {}>::{}", i, tr, t.fn_name),
            (Some(i), None) => format!("{}::{}", i, t.fn_name),
            _ => t.fn_name.clone(),
        },
        "source_lines": [f.line_start, f.line_end],
        "lowered_body_hash": fnv(&lowered_body),
        "signature_overridden": t.sig.is_some(),
        "fragment": surroundings,
        "loops": n_loops,
        "rules_applied": applied,
        "builtin_passes": notes,
        "serves": t.serves,
        "emitted_name": emitted_name,
        "auto_extracted_without_contract": t.any_impl,
        "inlined_helpers": inlined_helpers,
        "calls": calls.into_iter().collect::<Vec<_>>(),
        "calls_any": calls_any.into_iter().collect::<Vec<_>>(),
    });
    Emitted { text: out, obligs, info }
}

fn count_stmt(s: &Stmt) -> usize {
    struct C(usize);
    impl<'ast> syn::visit::Visit<'ast> for C {
        fn visit_stmt(&mut self, s: &'ast Stmt) {
            self.0 += 1;
            syn::visit::visit_stmt(self, s);
        }
    }
    let mut c = C(0);
    syn::visit::Visit::visit_stmt(&mut c, s);
    c.0
}
fn count_stmts(b: &Block) -> usize {
    b.stmts.iter().map(count_stmt).sum()
}

fn emit_struct(ctx: &mut Ctx, unit: &Unit, file: &str, name: &str, rename: Option<&String>, spec_file: &str) -> (String, serde_json::Value) {
    let f = ctx.file(file).clone();
    let it = match find_named_item(&f.items, name) {
        Some(i) => i.clone(),
        None => die(&format!("lost anchor: item {} not found in {}", name, file)),
    };
    let visible = unit.visible(spec_file);
    let mut rules: Vec<&Rule> = unit.rules.iter().filter(|r| visible.contains(&r.file)).collect();
    rules.sort_by_key(|r| r.fallback);
    let n = rules.len();
    let mut lw = Lower { forloops: 0, drop_generics: unit.drop_generics.clone(), rules, counts: vec![0; n], notes: BTreeMap::new() };
    let line = it.span().start().line;
    let pubvis: syn::Visibility = syn::parse_quote!(pub);
    let fix_generics = |g: &mut syn::Generics, drop: &[String]| {
        g.where_clause = None;
        let params: Vec<syn::GenericParam> = g
            .params
            .iter()
            .filter(|p| match p {
                syn::GenericParam::Type(t) => !drop.contains(&t.ident.to_string()),
                _ => true,
            })
            .cloned()
            .map(|mut p| {
                if let syn::GenericParam::Type(t) = &mut p {
                    t.bounds.clear();
                    t.colon_token = None;
                }
                p
            })
            .collect();
        g.params = params.into_iter().collect();
        if g.params.is_empty() {
            g.lt_token = None;
            g.gt_token = None;
        }
    };
    let text = match it {
        syn::Item::Struct(mut s) => {
            if let Some(r) = rename {
                s.ident = syn::Ident::new(r, Span::call_site());
            }
            s.attrs.clear();
            s.vis = pubvis.clone();
            fix_generics(&mut s.generics, &unit.drop_generics);
            for fl in s.fields.iter_mut() {
                fl.attrs.clear();
                fl.vis = pubvis.clone();
                lw.visit_type_mut(&mut fl.ty);
            }
            print_plain(s.to_token_stream())
        }
        syn::Item::Enum(mut s) => {
            if let Some(r) = rename {
                s.ident = syn::Ident::new(r, Span::call_site());
            }
            s.attrs.clear();
            s.vis = pubvis.clone();
            fix_generics(&mut s.generics, &unit.drop_generics);
            for v in s.variants.iter_mut() {
                v.attrs.clear();
                for fl in v.fields.iter_mut() {
                    fl.attrs.clear();
                    lw.visit_type_mut(&mut fl.ty);
                }
            }
            print_plain(s.to_token_stream())
        }
        syn::Item::Const(mut c) => {
            c.attrs.clear();
            c.vis = pubvis.clone();
            lw.visit_type_mut(&mut c.ty);
            lw.visit_expr_mut(&mut c.expr);
            print_plain(c.to_token_stream())
        }
        syn::Item::Type(mut c) => {
            c.attrs.clear();
            c.vis = pubvis.clone();
            lw.visit_type_mut(&mut c.ty);
            print_plain(c.to_token_stream())
        }
        _ => die("unsupported item kind"),
    };
    (
        text,
        json!({"item": name, "source_file": file, "source_line": line, "kind": "type/const definition carried verbatim (attributes, visibility, bounds dropped)"}),
    )
}

fn main() {
    let args: Vec<String> = std::env::args().collect();
    if args.len() != 6 {
        eprintln!("usage: vextract <repo> <verif> <unit.vc> <out.rs> <out.json>");
        std::process::exit(2);
    }
    let (repo, verif, unit_path, out_rs, out_json) = (&args[1], &args[2], &args[3], &args[4], &args[5]);
    let unit = match spec::parse_unit(unit_path, &format!("{}/contracts", verif)) {
        Ok(u) => u,
        Err(e) => die(&format!("bad contract file: {}", e)),
    };
    let mut ctx = Ctx { repo: repo.clone(), files: HashMap::new(), srcs: HashMap::new(), predefined: Default::default() };

    let mut out = String::new();
    out.push_str("// GENERATED by vextract on every run from the current /repo working tree — do not edit.\n");
    out.push_str(&format!("// unit: {}\n", unit.name));
    out.push_str("#![allow(unused_imports, unused_variables, unused_mut, dead_code, unused_parens, unused_braces, unused_assignments, unreachable_code, non_snake_case, unused_must_use)]\n");
    out.push_str("use vstd::prelude::*;\nverus! {\n");
    let mut sections: Vec<serde_json::Value> = Vec::new();
    let mut add_file = |out: &mut String, dir: &str, f: &str, kind: &str| {
        let p = format!("{}/{}/{}", verif, dir, f);
        let txt = match std::fs::read_to_string(&p) {
            Ok(t) => t,
            Err(e) => die(&format!("cannot read {}: {}", p, e)),
        };
        let first = out.matches('\n').count() + 1;
        out.push_str(&format!("// ---- {} {} ----\n", kind, f));
        out.push_str(&txt);
        if !txt.ends_with('\n') {
            out.push('\n');
        }
        let last = out.matches('\n').count();
        sections.push(json!({"kind": kind, "file": p, "lines": [first, last]}));
    };
    for p in &unit.preludes {
        add_file(&mut out, "prelude", p, "prelude");
    }

    let mut obligs: Vec<Oblig> = Vec::new();
    let mut functions: Vec<serde_json::Value> = Vec::new();
    let mut items_info: Vec<serde_json::Value> = Vec::new();

    // every function name that has a definition in the generated file: prelude stubs, @raw items, targets
    {
        let mut names: std::collections::BTreeSet<String> = Default::default();
        let mut scan = |txt: &str, names: &mut std::collections::BTreeSet<String>| {
            for part in txt.split("fn ").skip(1) {
                let name: String = part.chars().take_while(|c| c.is_alphanumeric() || *c == '_').collect();
                if !name.is_empty() { names.insert(name); }
            }
        };
        scan(&out, &mut names);
        for it in &unit.items {
            match it {
                Item::Raw(txt) => scan(txt, &mut names),
                Item::Target(t) => {
                    names.insert(t.fn_name.clone());
                    if let Some(r) = &t.rename { names.insert(r.clone()); }
                    if let Some(sg) = &t.sig { scan(sg, &mut names); }
                }
                _ => {}
            }
        }
        for p in &unit.lemmas {
            if let Ok(txt) = std::fs::read_to_string(p) { scan(&txt, &mut names); }
        }
        ctx.predefined = names;
    }

    // group consecutive targets with the same @in header
    let mut open_impl: Option<String> = None;
    for it in &unit.items {
        let this_impl = match it {
            Item::Target(t) => t.in_impl.clone(),
            _ => None,
        };
        if open_impl != this_impl {
            if open_impl.is_some() {
                out.push_str("}\n");
            }
            if let Some(h) = &this_impl {
                out.push_str(&format!("{} {{\n", h));
            }
            open_impl = this_impl.clone();
        }
        match it {
            Item::Raw(txt) => {
                out.push_str(txt.trim_start_matches('\n'));
                out.push('\n');
            }
            Item::Struct { file, name, rename, spec_file } => {
                let (txt, info) = emit_struct(&mut ctx, &unit, file, name, rename.as_ref(), spec_file);
                out.push_str(&txt);
                out.push('\n');
                items_info.push(info);
            }
            Item::Const { file, name, spec_file } => {
                let (txt, info) = emit_struct(&mut ctx, &unit, file, name, None, spec_file);
                out.push_str(&txt);
                out.push('\n');
                items_info.push(info);
            }
            Item::Target(t) => {
                let em = emit_target(&mut ctx, &unit, t);
                let base = out.matches('\n').count(); // lines before
                out.push_str(&format!("// ---- extracted: {} :: {} ----\n", t.file, t.fn_name));
                let base = base + 1;
                let n_lines = em.text.matches('\n').count();
                out.push_str(&em.text);
                for mut o in em.obligs {
                    o.first += base;
                    o.last += base;
                    obligs.push(o);
                }
                let mut info = em.info;
                info["out_lines"] = json!([base + 1, base + n_lines]);
                functions.push(info);
            }
        }
    }
    if open_impl.is_some() {
        out.push_str("}\n");
    }
    // helper functions of the same impl that a target calls but that no contract names (e.g. a
    // helper introduced by a refactoring): extracted automatically WITHOUT a contract — callers see
    // only their signature, which over-approximates them
    let mut known_targets: Vec<Target> = unit.items.iter().filter_map(|it| if let Item::Target(t) = it { Some(t.clone()) } else { None }).collect();
    for _round in 0..3 {
        let defined: std::collections::BTreeSet<String> = {
            let mut d = std::collections::BTreeSet::new();
            let bytes: Vec<&str> = out.split("fn ").collect();
            for part in bytes.iter().skip(1) {
                let name: String = part.chars().take_while(|c| c.is_alphanumeric() || *c == '_').collect();
                if !name.is_empty() { d.insert(name); }
            }
            d
        };
        let mut new_targets: Vec<Target> = Vec::new();
        for (fi, info) in functions.iter().enumerate() {
            let caller = match known_targets.iter().find(|t| t.name == info["target"].as_str().unwrap_or("")) { Some(c) => c.clone(), None => continue };
            let _ = fi;
            for c in info["calls"].as_array().cloned().unwrap_or_default() {
                let name = c.as_str().unwrap_or("").to_string();
                if name.is_empty() || defined.contains(&name) || new_targets.iter().any(|t| t.fn_name == name) { continue; }
                let file = ctx.file(&caller.file).clone();
                // a method of the same type first, then a free function of the same file
                let mut chosen: Option<Target> = None;
                if caller.impl_of.is_some() {
                    let probe = Target { name: format!("auto_{}", name), file: caller.file.clone(), impl_of: caller.impl_of.clone(),
                        fn_name: name.clone(), in_impl: caller.in_impl.clone(), spec_file: caller.spec_file.clone(), any_impl: true,
                        serves: caller.serves.clone(), ..Default::default() };
                    let mut found = Vec::new();
                    find_fn_in_items(&file.items, &probe, &mut found);
                    if found.len() == 1 { chosen = Some(probe); }
                }
                if chosen.is_none() {
                    let probe = Target { name: format!("auto_{}", name), file: caller.file.clone(), impl_of: None,
                        fn_name: name.clone(), in_impl: None, spec_file: caller.spec_file.clone(), any_impl: true,
                        serves: caller.serves.clone(), ..Default::default() };
                    let mut found = Vec::new();
                    find_fn_in_items(&file.items, &probe, &mut found);
                    if found.len() == 1 { chosen = Some(probe); }
                }
                if let Some(t) = chosen { new_targets.push(t); }
            }
        }
        if new_targets.is_empty() { break; }
        for t in new_targets {
            let em = emit_target(&mut ctx, &unit, &t);
            if let Some(h) = &t.in_impl { out.push_str(&format!("{} {{\n", h)); }
            let base = out.matches('\n').count();
            out.push_str(&format!("// ---- auto-extracted helper (no contract): {} :: {} ----\n", t.file, t.fn_name));
            let base = base + 1;
            let n_lines = em.text.matches('\n').count();
            out.push_str(&em.text);
            if t.in_impl.is_some() { out.push_str("}\n"); }
            let mut info = em.info;
            info["out_lines"] = json!([base + 1, base + n_lines]);
            functions.push(info);
            known_targets.push(t);
        }
    }
    for p in &unit.lemmas {
        add_file(&mut out, "lemmas", p, "lemmas");
    }
    out.push_str("} // verus!\nfn main() {}\n");

    if let Err(e) = std::fs::write(out_rs, &out) {
        die(&format!("cannot write {}: {}", out_rs, e));
    }
    let unused: Vec<String> = Vec::new();
    let side = json!({
        "unit": unit.name,
        "generated": out_rs,
        "functions": functions,
        "items": items_info,
        "sections": sections,
        "obligations": obligs.iter().map(|o| json!({
            "name": o.name, "kind": o.kind, "lines": [o.first, o.last], "text": o.text, "target": o.target, "optional": o.optional
        })).collect::<Vec<_>>(),
        "unused_rules": unused,
    });
    if let Err(e) = std::fs::write(out_json, serde_json::to_string_pretty(&side).unwrap()) {
        die(&format!("cannot write {}: {}", out_json, e));
    }
    println!("OK unit={} functions={} obligations={}", unit.name, side["functions"].as_array().unwrap().len(), obligs.len());
}
