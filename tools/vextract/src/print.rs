//! Token printer with line breaks, plus substitution of the markers that the lowering pass
//! leaves in the tree:
//!   `__vloop_N(<expr>)`  (while condition / for iterator)  -> `<expr>` followed by loop clauses N
//!   `'__vloop_N: loop`                                      -> `loop` followed by loop clauses N
//!   `__vsplice_K();`                                        -> raw text block K
use proc_macro2::{Delimiter, Spacing, TokenStream, TokenTree};
use std::collections::BTreeMap;

pub struct Printer<'a> {
    pub out: String,
    indent: usize,
    at_line_start: bool,
    pub loop_text: &'a BTreeMap<usize, String>,
    pub splice_text: &'a BTreeMap<usize, String>,
    /// (marker kind, id, first line, last line) — lines are 1-based within `out`
    pub placed: Vec<(String, usize, usize, usize)>,
    pending_loop: Option<usize>,
}

impl<'a> Printer<'a> {
    pub fn new(
        loop_text: &'a BTreeMap<usize, String>,
        splice_text: &'a BTreeMap<usize, String>,
    ) -> Self {
        Printer {
            out: String::new(),
            indent: 0,
            at_line_start: true,
            loop_text,
            splice_text,
            placed: Vec::new(),
            pending_loop: None,
        }
    }

    pub fn cur_line(&self) -> usize {
        self.out.matches('\n').count() + 1
    }

    fn nl(&mut self) {
        if !self.at_line_start {
            self.out.push('\n');
            self.at_line_start = true;
        }
    }

    fn word(&mut self, s: &str, space_before: bool) {
        if self.at_line_start {
            for _ in 0..self.indent {
                self.out.push_str("    ");
            }
            self.at_line_start = false;
        } else if space_before {
            self.out.push(' ');
        }
        self.out.push_str(s);
    }

    pub fn raw_block(&mut self, kind: &str, id: usize, text: &str) {
        self.nl();
        let first = self.cur_line();
        for l in text.lines() {
            self.word(l.trim_end(), false);
            self.nl();
        }
        let last = self.cur_line() - 1;
        self.placed.push((kind.to_string(), id, first, last.max(first)));
    }

    fn marker_id(s: &str, prefix: &str) -> Option<usize> {
        s.strip_prefix(prefix).and_then(|r| r.parse().ok())
    }

    pub fn stream(&mut self, ts: TokenStream, in_brace: bool) {
        let toks: Vec<TokenTree> = ts.into_iter().collect();
        let mut i = 0;
        let mut prev_joint = false;
        let mut no_space_next = false;
        while i < toks.len() {
            let t = &toks[i];
            match t {
                TokenTree::Ident(id) => {
                    let s = id.to_string();
                    // `__vloop_N ( expr )`
                    if let Some(n) = Self::marker_id(&s, "__vloop_") {
                        if let Some(TokenTree::Group(g)) = toks.get(i + 1) {
                            if g.delimiter() == Delimiter::Parenthesis {
                                self.stream(g.stream(), false);
                                let txt = self.loop_text.get(&n).cloned().unwrap_or_default();
                                if !txt.trim().is_empty() {
                                    self.indent += 1;
                                    self.raw_block("loop", n, &txt);
                                    self.indent -= 1;
                                }
                                i += 2;
                                prev_joint = false;
                                continue;
                            }
                        }
                    }
                    if let Some(k) = Self::marker_id(&s, "__vsplice_") {
                        // `__vsplice_K ( ) ;`
                        let txt = self.splice_text.get(&k).cloned().unwrap_or_default();
                        self.raw_block("splice", k, &txt);
                        i += 2;
                        if let Some(TokenTree::Punct(p)) = toks.get(i) {
                            if p.as_char() == ';' {
                                i += 1;
                            }
                        }
                        prev_joint = false;
                        continue;
                    }
                    if s == "loop" {
                        self.word("loop", !prev_joint && !no_space_next);
                        if let Some(n) = self.pending_loop.take() {
                            let txt = self.loop_text.get(&n).cloned().unwrap_or_default();
                            if !txt.trim().is_empty() {
                                self.indent += 1;
                                self.raw_block("loop", n, &txt);
                                self.indent -= 1;
                            }
                        }
                        i += 1;
                        prev_joint = false;
                        no_space_next = false;
                        continue;
                    }
                    self.word(&s, !prev_joint && !no_space_next);
                    prev_joint = false;
                    no_space_next = false;
                }
                TokenTree::Punct(p) => {
                    let c = p.as_char();
                    // lifetime / loop label marker `'__vloop_N :`
                    if c == '\'' {
                        if let Some(TokenTree::Ident(id)) = toks.get(i + 1) {
                            if let Some(n) = Self::marker_id(&id.to_string(), "__vloop_") {
                                self.pending_loop = Some(n);
                                i += 2;
                                if let Some(TokenTree::Punct(p2)) = toks.get(i) {
                                    if p2.as_char() == ':' {
                                        i += 1;
                                    }
                                }
                                prev_joint = false;
                                continue;
                            }
                        }
                    }
                    let tight_before = matches!(c, ',' | ';' | '.' | '?') && !prev_joint;
                    let s = c.to_string();
                    self.word(&s, !prev_joint && !tight_before && !no_space_next);
                    prev_joint = p.spacing() == Spacing::Joint;
                    no_space_next = c == '.' && !prev_joint;
                    if c == ';' && in_brace {
                        self.nl();
                    }
                    if c == ',' && in_brace {
                        self.nl();
                    }
                }
                TokenTree::Literal(l) => {
                    self.word(&l.to_string(), !prev_joint && !no_space_next);
                    prev_joint = false;
                    no_space_next = false;
                }
                TokenTree::Group(g) => {
                    let (o, c) = match g.delimiter() {
                        Delimiter::Parenthesis => ("(", ")"),
                        Delimiter::Brace => ("{", "}"),
                        Delimiter::Bracket => ("[", "]"),
                        Delimiter::None => ("", ""),
                    };
                    if g.delimiter() == Delimiter::Brace {
                        self.word(o, true);
                        self.nl();
                        self.indent += 1;
                        self.stream(g.stream(), true);
                        self.indent -= 1;
                        self.nl();
                        self.word(c, false);
                        // a block that ends a statement: break the line unless `else`/`,`/`.`/`)` follows
                        let next_is_cont = match toks.get(i + 1) {
                            Some(TokenTree::Ident(id)) => id == "else",
                            Some(TokenTree::Punct(p)) => {
                                matches!(p.as_char(), ',' | '.' | ';' | '?' | ')')
                            }
                            None => !in_brace,
                            _ => false,
                        };
                        if !next_is_cont {
                            self.nl();
                        }
                    } else {
                        // call parens and index brackets attach to the previous token
                        let attach = i > 0
                            && match &toks[i - 1] {
                                TokenTree::Ident(id) => {
                                    let s = id.to_string();
                                    !matches!(
                                        s.as_str(),
                                        "if" | "while" | "match" | "in" | "return" | "let"
                                            | "for" | "else" | "mut" | "as" | "break"
                                    )
                                }
                                TokenTree::Group(_) => true,
                                TokenTree::Punct(p) => matches!(p.as_char(), '!' | '>' | '?'),
                                _ => false,
                            };
                        self.word(o, !attach && !prev_joint && !no_space_next);
                        let save = self.at_line_start;
                        self.at_line_start = false;
                        let mark = self.out.len();
                        self.stream(g.stream(), false);
                        // remove the space the inner stream put right after the opening delimiter
                        if self.out.len() > mark && self.out.as_bytes()[mark] == b' ' {
                            self.out.remove(mark);
                        }
                        let _ = save;
                        self.word(c, false);
                    }
                    prev_joint = false;
                    no_space_next = false;
                }
            }
            i += 1;
        }
    }
}
