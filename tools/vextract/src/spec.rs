//! Parser for the unit contract files (`/verif/contracts/<unit>.vc`).
//!
//! Line oriented. A directive starts with `@` in column 0; its argument is the rest of the line
//! plus every following line up to the next directive. Lines starting with `//` in column 0
//! between directives are comments.
use crate::pat::{parse_pattern, PTok};

#[derive(Clone, Debug)]
pub struct Rule {
    pub kind: String, // "rewrite" | "type" | "dropstmt" | "stmt"
    pub src: String,
    pub pat: Vec<PTok>,
    pub tpl: Vec<PTok>,
    pub required: bool,
    // `@fallback`: a generic std-definition rewrite that applies only where no other rule matched
    pub fallback: bool,
    pub origin: String,
    pub file: String,
}

#[derive(Clone, Debug, Default)]
pub struct Splice {
    pub place: String, // before | after | replace | start | end | tail | lowered-before | lowered-after (anchor matched on the lowered body)
    pub anchor_src: String,
    pub anchor: Vec<PTok>,
    pub nth: usize,
    pub text: String,
    pub obligation: Option<String>,
    /// anchor written `~ PATTERN`: the innermost statement that CONTAINS the pattern anywhere
    pub contains: bool,
}

#[derive(Clone, Debug, Default)]
pub struct Target {
    pub name: String,
    pub file: String,
    pub impl_of: Option<String>,
    pub trait_of: Option<String>,
    pub fn_name: String,
    pub in_impl: Option<String>,
    pub from: Option<(String, Vec<PTok>)>,
    pub to: Option<(String, Vec<PTok>)>,
    pub sig: Option<String>,
    pub ret: Option<String>,
    pub requires: Option<String>,
    pub ensures: Option<String>,
    pub decreases: Option<String>,
    pub attrs: Vec<String>,
    pub loops: Vec<(usize, String)>,
    pub splices: Vec<Splice>,
    pub rules: Vec<Rule>,
    pub keep_where: bool,
    pub drop_generics: Vec<String>,
    pub rename: Option<String>,
    pub tail: Option<String>,
    pub serves: Vec<String>,
    pub spec_file: String,
    /// auto-extracted helper: match the function in any impl (inherent or trait) of the type
    pub any_impl: bool,
}

#[derive(Clone, Debug)]
pub enum Item {
    Target(Target),
    Struct { file: String, name: String, rename: Option<String>, spec_file: String },
    Const { file: String, name: String, spec_file: String },
    Raw(String),
}

#[derive(Clone, Debug, Default)]
pub struct Unit {
    pub name: String,
    pub preludes: Vec<String>,
    pub lemmas: Vec<String>,
    pub rules: Vec<Rule>,
    pub items: Vec<Item>,
    pub drop_generics: Vec<String>,
    /// include graph: file -> files it includes (via @include / @rules)
    pub includes: Vec<(String, String)>,
}

impl Unit {
    /// files whose unit-level rules are visible to a target defined in `file`
    pub fn visible(&self, file: &str) -> Vec<String> {
        let mut v = vec![file.to_string()];
        let mut i = 0;
        while i < v.len() {
            let cur = v[i].clone();
            for (a, b) in &self.includes {
                if *a == cur && !v.contains(b) {
                    v.push(b.clone());
                }
            }
            i += 1;
        }
        v
    }
}

fn mk_rule(kind: &str, arg: &str, origin: &str) -> Result<Rule, String> {
    let (required, arg) = match arg.trim_start().strip_prefix('!') {
        Some(r) => (true, r),
        None => (false, arg),
    };
    let (p, t) = if kind == "dropstmt" {
        (arg.trim(), "")
    } else {
        let idx = arg
            .find("=>>")
            .ok_or_else(|| format!("{}: rule needs `=>>`: {}", origin, arg))?;
        (arg[..idx].trim(), arg[idx + 3..].trim())
    };
    Ok(Rule {
        kind: kind.to_string(),
        src: arg.trim().to_string(),
        pat: parse_pattern(p)?,
        tpl: parse_pattern(t)?,
        required,
        fallback: false,
        origin: origin.to_string(),
        file: origin.rsplitn(2, ':').nth(1).unwrap_or("").to_string(),
    })
}

fn split_directives(text: &str) -> Vec<(usize, String, String)> {
    let mut out: Vec<(usize, String, String)> = Vec::new();
    for (ln, line) in text.lines().enumerate() {
        if line.starts_with('@') {
            let rest = &line[1..];
            let (d, a) = match rest.find(char::is_whitespace) {
                Some(i) => (&rest[..i], rest[i..].trim_start()),
                None => (rest, ""),
            };
            out.push((ln + 1, d.to_string(), a.to_string()));
        } else if line.starts_with("//") {
            continue;
        } else if let Some(last) = out.last_mut() {
            last.2.push('\n');
            last.2.push_str(line);
        }
    }
    out
}

pub fn parse_source(arg: &str) -> Result<(String, Option<String>, Option<String>, String), String> {
    // FILE :: fn   |  FILE :: Type :: fn  |  FILE :: Trait for Type :: fn
    let parts: Vec<&str> = arg.split("::").map(|s| s.trim()).collect();
    match parts.len() {
        2 => Ok((parts[0].to_string(), None, None, parts[1].to_string())),
        3 => {
            let mid = parts[1];
            if let Some(i) = mid.find(" for ") {
                Ok((
                    parts[0].to_string(),
                    Some(mid[i + 5..].trim().to_string()),
                    Some(mid[..i].trim().to_string()),
                    parts[2].to_string(),
                ))
            } else {
                Ok((parts[0].to_string(), Some(mid.to_string()), None, parts[2].to_string()))
            }
        }
        _ => Err(format!("bad @source: {}", arg)),
    }
}

pub fn parse_unit(path: &str, include_dir: &str) -> Result<Unit, String> {
    let text = std::fs::read_to_string(path).map_err(|e| format!("{}: {}", path, e))?;
    let mut unit = Unit::default();
    parse_into(&text, path, include_dir, &mut unit)?;
    // includes may bring the same rule file / type definition more than once
    let mut seen = std::collections::BTreeSet::new();
    unit.rules.retain(|r| seen.insert(format!("{}|{}", r.kind, r.src)));
    let mut seen_items = std::collections::BTreeSet::new();
    unit.items.retain(|it| match it {
        Item::Struct { file, name, .. } => seen_items.insert(format!("{}::{}", file, name)),
        Item::Const { file, name, .. } => seen_items.insert(format!("{}::{}", file, name)),
        Item::Raw(t) => seen_items.insert(format!("raw:{}", t)),
        Item::Target(t) => seen_items.insert(format!("target:{}:{}:{:?}:{}", t.name, t.file, t.impl_of, t.fn_name)),
    });
    let mut names = std::collections::BTreeSet::new();
    for it in &unit.items {
        if let Item::Target(t) = it {
            if !names.insert(t.name.clone()) {
                return Err(format!("duplicate target name `{}` for different sources", t.name));
            }
        }
    }
    let mut seen_g = std::collections::BTreeSet::new();
    unit.drop_generics.retain(|g| seen_g.insert(g.clone()));
    Ok(unit)
}

fn parse_into(text: &str, path: &str, include_dir: &str, unit: &mut Unit) -> Result<(), String> {
    let mut cur: Option<Target> = None;
    let mut default_serves: Vec<String> = Vec::new();
    for (ln, d, a) in split_directives(text) {
        let origin = format!("{}:{}", path, ln);
        let a_trim = a.trim().to_string();
        match d.as_str() {
            "unit" => unit.name = a_trim,
            "serves-default" => default_serves = a_trim.split_whitespace().map(String::from).collect(),
            "prelude" => {
                for f in a_trim.split_whitespace() {
                    if !unit.preludes.iter().any(|x| x == f) {
                        unit.preludes.push(f.to_string());
                    }
                }
            }
            "lemmas" => unit.lemmas.extend(a_trim.split_whitespace().map(String::from)),
            "include" => {
                for f in a_trim.split_whitespace() {
                    let p = format!("{}/{}", include_dir, f);
                    let t = std::fs::read_to_string(&p).map_err(|e| format!("{}: {}", p, e))?;
                    let saved = unit.name.clone();
                    unit.includes.push((path.to_string(), p.clone()));
                    parse_into(&t, &p, include_dir, unit)?;
                    unit.name = saved;
                }
            }
            "rules" => {
                for f in a_trim.split_whitespace() {
                    let p = format!("{}/{}", include_dir, f);
                    let t = std::fs::read_to_string(&p).map_err(|e| format!("{}: {}", p, e))?;
                    let mut sub = Unit::default();
                    unit.includes.push((path.to_string(), p.clone()));
                    parse_into(&t, &p, include_dir, &mut sub)?;
                    match cur.as_mut() {
                        // inside a target: rules of the file apply to this target only
                        Some(tg) => tg.rules.extend(sub.rules),
                        None => unit.rules.extend(sub.rules),
                    }
                }
            }
            "rewrite" | "type" | "dropstmt" | "stmt" | "forloop" | "guard" | "fallback" => {
                let mut r = mk_rule(if d == "fallback" { "rewrite" } else { &d }, &a, &origin)?;
                if d == "fallback" { r.fallback = true; }
                match cur.as_mut() {
                    Some(t) => t.rules.push(r),
                    None => unit.rules.push(r),
                }
            }
            "dropgeneric" => match cur.as_mut() {
                Some(t) => t.drop_generics.extend(a_trim.split_whitespace().map(String::from)),
                None => unit.drop_generics.extend(a_trim.split_whitespace().map(String::from)),
            },
            "struct" | "enum" => {
                let (src, rename) = match a_trim.find(" as ") {
                    Some(i) => (a_trim[..i].to_string(), Some(a_trim[i + 4..].trim().to_string())),
                    None => (a_trim.clone(), None),
                };
                let (file, _, _, name) = parse_source(&src)?;
                unit.items.push(Item::Struct { file, name, rename, spec_file: path.to_string() });
            }
            "const" => {
                let (file, _, _, name) = parse_source(&a_trim)?;
                unit.items.push(Item::Const { file, name, spec_file: path.to_string() });
            }
            "raw" => unit.items.push(Item::Raw(a.clone())),
            "target" => {
                if cur.is_some() {
                    return Err(format!("{}: nested @target (missing @end)", origin));
                }
                cur = Some(Target { name: a_trim, spec_file: path.to_string(), ..Default::default() });
            }
            "end" => {
                let mut t = cur.take().ok_or_else(|| format!("{}: @end without @target", origin))?;
                if t.serves.is_empty() {
                    t.serves = default_serves.clone();
                }
                if t.file.is_empty() {
                    return Err(format!("{}: target {} has no @source", origin, t.name));
                }
                unit.items.push(Item::Target(t));
            }
            other => {
                let t = cur
                    .as_mut()
                    .ok_or_else(|| format!("{}: @{} outside @target", origin, other))?;
                match other {
                    "source" => {
                        let (f, i, tr, n) = parse_source(&a_trim)?;
                        t.file = f;
                        t.impl_of = i;
                        t.trait_of = tr;
                        t.fn_name = n;
                    }
                    "in" => t.in_impl = Some(a_trim),
                    "from" => t.from = Some((a_trim.clone(), parse_pattern(&a_trim)?)),
                    "to" => t.to = Some((a_trim.clone(), parse_pattern(&a_trim)?)),
                    "sig" => t.sig = Some(a.trim().to_string()),
                    "ret" => t.ret = Some(a_trim),
                    "rename" => t.rename = Some(a_trim),
                    "tail" => t.tail = Some(a.trim().to_string()),
                    "requires" => t.requires = Some(a.clone()),
                    "ensures" => t.ensures = Some(a.clone()),
                    "decreases" => t.decreases = Some(a.clone()),
                    "attr" => t.attrs.push(a_trim),
                    "keepwhere" => t.keep_where = true,
                    "serves" => t.serves.extend(a_trim.split_whitespace().map(String::from)),
                    "loop" => {
                        let (n, rest) = match a.find(char::is_whitespace) {
                            Some(i) => (&a[..i], &a[i..]),
                            None => (a.as_str(), ""),
                        };
                        let n: usize =
                            n.trim().parse().map_err(|_| format!("{}: bad loop ordinal", origin))?;
                        t.loops.push((n, rest.to_string()));
                    }
                    "proof" | "obligation" => {
                        // @proof before|after|replace[#n] PATTERN \n text
                        // @proof start|end \n text
                        // @obligation NAME before PATTERN \n assert(...);
                        let first_line = a.lines().next().unwrap_or("").to_string();
                        let text: String =
                            a.lines().skip(1).collect::<Vec<_>>().join("\n");
                        let mut words = first_line.trim().splitn(2, char::is_whitespace);
                        let mut obligation = None;
                        let mut place = words.next().unwrap_or("").to_string();
                        let mut rest = words.next().unwrap_or("").trim().to_string();
                        if other == "obligation" {
                            obligation = Some(place.clone());
                            let mut w2 = rest.splitn(2, char::is_whitespace);
                            place = w2.next().unwrap_or("").to_string();
                            let r2 = w2.next().unwrap_or("").trim().to_string();
                            rest = r2;
                        }
                        let mut nth = 0usize;
                        if let Some(i) = place.find('#') {
                            nth = place[i + 1..]
                                .parse()
                                .map_err(|_| format!("{}: bad #n", origin))?;
                            place = place[..i].to_string();
                        }
                        if !matches!(place.as_str(), "before" | "after" | "replace" | "start" | "end" | "tail" | "exits" | "lowered-before" | "lowered-after" | "ret") {
                            return Err(format!("{}: bad splice place `{}`", origin, place));
                        }
                        let (contains, rest) = match rest.strip_prefix('~') {
                            Some(r) => (true, r.trim().to_string()),
                            None => (false, rest),
                        };
                        let anchor = if rest.is_empty() { Vec::new() } else { parse_pattern(&rest)? };
                        t.splices.push(Splice {
                            place,
                            anchor_src: rest,
                            anchor,
                            nth,
                            text,
                            obligation,
                            contains,
                        });
                    }
                    _ => return Err(format!("{}: unknown directive @{}", origin, other)),
                }
            }
        }
    }
    if cur.is_some() {
        return Err(format!("{}: missing @end", path));
    }
    Ok(())
}
