//! Token-tree patterns with metavariables (`$name`), used for statement anchors and for the
//! call-site abstraction rules (DESIGN §2, R3/R5/R7/R8/R9/R10).
//!
//! A pattern is tokenised by proc_macro2 after `$x` has been replaced by the identifier `__mv_x`.
//! Metavariable kinds are chosen by name prefix:
//!   `$e_*` or no prefix : expression   (bound tokens must parse as syn::Expr)
//!   `$p_*`              : pattern      (syn::Pat)
//!   `$t_*`              : type         (syn::Type)
//!   `$i_*`              : identifier   (exactly one ident token)
//!   `$l_*`              : literal      (exactly one literal token)
//!   `$b_*`              : block        (exactly one `{}` group)
//!   `$s_*`              : any token sequence, possibly empty (no validation)
use proc_macro2::{Delimiter, Group, Ident, Span, TokenStream, TokenTree};
use quote::ToTokens;
use std::collections::BTreeMap;
use syn::parse::Parser;
use syn::visit_mut::VisitMut;

#[derive(Clone, Debug, PartialEq)]
pub enum Kind {
    Expr,
    Pat,
    Type,
    Ident,
    Lit,
    Block,
    Seq,
}

#[derive(Clone, Debug)]
pub enum PTok {
    Tok(TokenTree),
    Meta(String, Kind),
    Group(Delimiter, Vec<PTok>),
}

pub type Binds = BTreeMap<String, Vec<TokenTree>>;

pub fn pre(src: &str) -> String {
    // `$name` -> `__mv_name`
    let mut out = String::new();
    let mut it = src.chars().peekable();
    while let Some(c) = it.next() {
        if c == '$' && it.peek().map_or(false, |n| n.is_alphabetic() || *n == '_') {
            out.push_str("__mv_");
        } else {
            out.push(c);
        }
    }
    out
}

fn kind_of(name: &str) -> Kind {
    if name.starts_with("p_") {
        Kind::Pat
    } else if name.starts_with("t_") {
        Kind::Type
    } else if name.starts_with("i_") {
        Kind::Ident
    } else if name.starts_with("l_") {
        Kind::Lit
    } else if name.starts_with("b_") {
        Kind::Block
    } else if name.starts_with("s_") {
        Kind::Seq
    } else {
        Kind::Expr
    }
}

pub fn parse_pattern(src: &str) -> Result<Vec<PTok>, String> {
    let ts: TokenStream = pre(src)
        .parse()
        .map_err(|e| format!("cannot tokenise pattern `{}`: {}", src, e))?;
    Ok(conv(ts))
}

fn conv(ts: TokenStream) -> Vec<PTok> {
    let mut v = Vec::new();
    for tt in ts {
        match tt {
            TokenTree::Ident(ref id) => {
                let s = id.to_string();
                if let Some(name) = s.strip_prefix("__mv_") {
                    v.push(PTok::Meta(name.to_string(), kind_of(name)));
                } else {
                    v.push(PTok::Tok(tt));
                }
            }
            TokenTree::Group(g) => v.push(PTok::Group(g.delimiter(), conv(g.stream()))),
            other => v.push(PTok::Tok(other)),
        }
    }
    v
}

pub fn flat(ts: TokenStream) -> Vec<TokenTree> {
    ts.into_iter().collect()
}

fn tok_eq(a: &TokenTree, b: &TokenTree) -> bool {
    match (a, b) {
        (TokenTree::Ident(x), TokenTree::Ident(y)) => x == y,
        (TokenTree::Punct(x), TokenTree::Punct(y)) => x.as_char() == y.as_char(),
        (TokenTree::Literal(x), TokenTree::Literal(y)) => x.to_string() == y.to_string(),
        (TokenTree::Group(x), TokenTree::Group(y)) => {
            x.delimiter() == y.delimiter() && seq_eq(&flat(x.stream()), &flat(y.stream()))
        }
        _ => false,
    }
}

pub fn seq_eq(a: &[TokenTree], b: &[TokenTree]) -> bool {
    a.len() == b.len() && a.iter().zip(b).all(|(x, y)| tok_eq(x, y))
}

fn to_stream(toks: &[TokenTree]) -> TokenStream {
    toks.iter().cloned().collect()
}

fn valid(kind: &Kind, toks: &[TokenTree]) -> bool {
    match kind {
        Kind::Seq => true,
        Kind::Ident => toks.len() == 1 && matches!(toks[0], TokenTree::Ident(_)),
        Kind::Lit => toks.len() == 1 && matches!(toks[0], TokenTree::Literal(_)),
        Kind::Block => {
            toks.len() == 1
                && matches!(&toks[0], TokenTree::Group(g) if g.delimiter() == Delimiter::Brace)
        }
        Kind::Expr => {
            !toks.is_empty() && syn::parse2::<syn::Expr>(to_stream(toks)).is_ok()
        }
        Kind::Pat => {
            !toks.is_empty()
                && syn::Pat::parse_multi_with_leading_vert
                    .parse2(to_stream(toks))
                    .is_ok()
        }
        Kind::Type => !toks.is_empty() && syn::parse2::<syn::Type>(to_stream(toks)).is_ok(),
    }
}

/// Match `pat` against the whole of `toks`. With `prefix`, the pattern only has to match a
/// prefix of `toks`.
pub fn match_tokens(pat: &[PTok], toks: &[TokenTree], prefix: bool, binds: &mut Binds) -> bool {
    if pat.is_empty() {
        return prefix || toks.is_empty();
    }
    match &pat[0] {
        PTok::Tok(t) => {
            if toks.is_empty() || !tok_eq(t, &toks[0]) {
                return false;
            }
            match_tokens(&pat[1..], &toks[1..], prefix, binds)
        }
        PTok::Group(d, inner) => {
            if toks.is_empty() {
                return false;
            }
            if let TokenTree::Group(g) = &toks[0] {
                if g.delimiter() != *d {
                    return false;
                }
                let saved = binds.clone();
                // a trailing comma inside a group is insignificant (rustfmt adds it on multi-line calls)
                let mut inner_toks = flat(g.stream());
                if matches!(inner_toks.last(), Some(TokenTree::Punct(p)) if p.as_char() == ',') {
                    inner_toks.pop();
                }
                let mut inner_pat: &[PTok] = inner;
                if matches!(inner_pat.last(), Some(PTok::Tok(TokenTree::Punct(p))) if p.as_char() == ',') {
                    inner_pat = &inner_pat[..inner_pat.len() - 1];
                }
                if match_tokens(inner_pat, &inner_toks, false, binds)
                    && match_tokens(&pat[1..], &toks[1..], prefix, binds)
                {
                    return true;
                }
                *binds = saved;
                false
            } else {
                false
            }
        }
        PTok::Meta(name, kind) => {
            if let Some(bound) = binds.get(name).cloned() {
                if toks.len() < bound.len() || !seq_eq(&bound, &toks[..bound.len()]) {
                    return false;
                }
                return match_tokens(&pat[1..], &toks[bound.len()..], prefix, binds);
            }
            let min = if *kind == Kind::Seq { 0 } else { 1 };
            let max = match kind {
                Kind::Ident | Kind::Lit | Kind::Block => 1.min(toks.len()),
                _ => toks.len(),
            };
            // a metavariable that is the last pattern token of a non-prefix match must take
            // everything that is left
            let only_full = pat.len() == 1 && !prefix;
            let mut n = if only_full { toks.len() } else { min };
            while n <= max {
                if n >= min && valid(kind, &toks[..n]) {
                    binds.insert(name.clone(), toks[..n].to_vec());
                    if match_tokens(&pat[1..], &toks[n..], prefix, binds) {
                        return true;
                    }
                    binds.remove(name);
                }
                n += 1;
            }
            false
        }
    }
}

fn atomic_expr(toks: &[TokenTree]) -> bool {
    toks.len() == 1
}

/// Instantiate a template. Expression bindings of more than one token are parenthesised so that
/// the surrounding template cannot re-associate them.
pub fn instantiate(tpl: &[PTok], binds: &Binds) -> Result<TokenStream, String> {
    let mut out = TokenStream::new();
    for p in tpl {
        match p {
            PTok::Tok(t) => out.extend(std::iter::once(t.clone())),
            PTok::Group(d, inner) => {
                let g = Group::new(*d, instantiate(inner, binds)?);
                out.extend(std::iter::once(TokenTree::Group(g)));
            }
            PTok::Meta(name, kind) => {
                let b = binds
                    .get(name)
                    .ok_or_else(|| format!("unbound metavariable ${}", name))?;
                if *kind == Kind::Expr && !atomic_expr(b) {
                    let g = Group::new(Delimiter::Parenthesis, to_stream(b));
                    out.extend(std::iter::once(TokenTree::Group(g)));
                } else {
                    out.extend(b.iter().cloned());
                }
            }
        }
    }
    Ok(out)
}

struct StripParens;
impl VisitMut for StripParens {
    fn visit_expr_mut(&mut self, e: &mut syn::Expr) {
        loop {
            match e {
                syn::Expr::Paren(p) => {
                    let inner = (*p.expr).clone();
                    *e = inner;
                }
                syn::Expr::Group(p) => {
                    let inner = (*p.expr).clone();
                    *e = inner;
                }
                _ => break,
            }
        }
        syn::visit_mut::visit_expr_mut(self, e);
    }
}

fn drop_trailing_commas(ts: TokenStream) -> TokenStream {
    let mut v: Vec<TokenTree> = ts.into_iter().collect();
    if matches!(v.last(), Some(TokenTree::Punct(p)) if p.as_char() == ',') {
        v.pop();
    }
    v.into_iter()
        .map(|t| match t {
            TokenTree::Group(g) => {
                // only inside groups: a top-level trailing comma was handled above
                let inner = drop_trailing_commas(g.stream());
                TokenTree::Group(Group::new(g.delimiter(), inner))
            }
            o => o,
        })
        .collect()
}

/// normal form used to compare an instantiated pattern with a node: no redundant parentheses, no
/// trailing commas in argument lists
pub fn strip_parens(e: syn::Expr) -> syn::Expr {
    let toks: Vec<TokenTree> = e.to_token_stream().into_iter().collect();
    let cleaned: TokenStream = toks
        .into_iter()
        .map(|t| match t {
            TokenTree::Group(g) => TokenTree::Group(Group::new(g.delimiter(), drop_trailing_commas(g.stream()))),
            o => o,
        })
        .collect();
    let mut e2 = match syn::parse2::<syn::Expr>(cleaned) {
        Ok(x) => x,
        Err(_) => e,
    };
    StripParens.visit_expr_mut(&mut e2);
    e2
}

/// Structural match of an expression node: token-level match, then the instantiated pattern must
/// parse to the same tree (modulo parentheses) as the node — this rejects matches that only
/// exist at token level because of operator precedence.
pub fn match_expr(pat: &[PTok], e: &syn::Expr) -> Option<Binds> {
    let toks = flat(e.to_token_stream());
    let mut binds = Binds::new();
    if !match_tokens(pat, &toks, false, &mut binds) {
        return None;
    }
    let inst = instantiate(pat, &binds).ok()?;
    let parsed = syn::parse2::<syn::Expr>(inst).ok()?;
    if strip_parens(parsed) == strip_parens(e.clone()) {
        Some(binds)
    } else {
        None
    }
}

pub fn match_type(pat: &[PTok], t: &syn::Type) -> Option<Binds> {
    let toks = flat(t.to_token_stream());
    let mut binds = Binds::new();
    if match_tokens(pat, &toks, false, &mut binds) {
        Some(binds)
    } else {
        None
    }
}

pub fn match_stmt(pat: &[PTok], s: &syn::Stmt, prefix: bool) -> Option<Binds> {
    let toks = flat(s.to_token_stream());
    let mut binds = Binds::new();
    if match_tokens(pat, &toks, prefix, &mut binds) {
        Some(binds)
    } else {
        None
    }
}

/// does the token sequence contain (at any nesting depth) a subsequence matching `pat`?
pub fn contains_tokens(pat: &[PTok], toks: &[TokenTree]) -> bool {
    for i in 0..toks.len() {
        let mut b = Binds::new();
        if match_tokens(pat, &toks[i..], true, &mut b) {
            return true;
        }
        if let TokenTree::Group(g) = &toks[i] {
            if contains_tokens(pat, &flat(g.stream())) {
                return true;
            }
        }
    }
    false
}
pub fn stmt_contains(pat: &[PTok], s: &syn::Stmt) -> bool {
    contains_tokens(pat, &flat(s.to_token_stream()))
}

#[allow(dead_code)]
pub fn ident(s: &str) -> Ident {
    Ident::new(s, Span::call_site())
}
