#!/usr/bin/env python3
"""Mutation campaign against the contracts (a self-test of the machinery, not a check):
for every real function a unit puts under contract, apply small syntactic mutations to its source
text in a scratch copy of /repo/src, re-run the unit, and record whether some obligation fails
(killed), everything still verifies (survived: weak contract or equivalent mutant) or the unit could
not be decided (lost anchor / unsupported construct / does not compile).

usage: tools/mutate.py <unit> [--jobs N] [--max-per-fn M] [--only <target-substring>]
writes build/mutation/<unit>.json and prints the survivors."""
import json, os, re, shutil, subprocess, sys, concurrent.futures as cf, hashlib

V = "/verif"
SCR = "/scratch/mut%d" % os.getpid()
OPS = [
    (r"(?<![<>=!\-+*/&|])<=(?!=)", "<"), (r"(?<![<>=!\-+*/&|<])<(?![<=])", "<="),
    (r"(?<![<>=!\-+*/&|>])>=(?!=)", ">"), (r"(?<![-=<>!\-+*/&|>])>(?![>=])", ">="),
    (r"==", "!="), (r"!=", "=="),
    (r"&&", "||"), (r"\|\|", "&&"),
    (r"\+ 1\b", "+ 0"), (r"- 1\b", "- 0"), (r"\+= 1\b", "+= 2"),
    (r"\btrue\b", "false"), (r"\bfalse\b", "true"),
    (r"\.is_some\(\)", ".is_none()"), (r"\.is_none\(\)", ".is_some()"),
    (r"\.is_ok\(\)", ".is_err()"), (r"\bif !", "if "),
    (r"\bSome\(true\)", "Some(false)"), (r"\.max\(", ".min("), (r"\.min\(", ".max("),
]

def mutants_for(lines, lo, hi, max_n):
    """yield (line_no, description, new_line) for body lines lo..hi (1-based, inclusive)"""
    out = []
    for ln in range(lo, hi + 1):
        text = lines[ln - 1]
        code = text.split("//")[0]
        st = code.strip()
        if not st or st.startswith(("#[", "///", "debug!", "trace!", "info!", "warn!", "error!")) or "fn " in code:
            continue
        if "debug_assert" in code:
            continue
        for pat, rep in OPS:
            for m in re.finditer(pat, code):
                # `|| expr` after `(` or `,` is a closure without parameters, not an operator
                if m.group(0) == "||" and re.search(r"[\(,=]\s*$", code[:m.start()]):
                    continue
                new = code[:m.start()] + rep + code[m.end():] + ("\n" if text.endswith("\n") else "")
                out.append((ln, "%s -> %s @col %d" % (m.group(0), rep, m.start()), new))
        # statement deletion: a simple call / assignment statement on one line
        if re.match(r"^\s*[A-Za-z_][\w\.\[\]]*(\(.*\))?(\.[\w]+\(.*\))*(\.await)?\??;\s*$", code) or re.match(r"^\s*[\w\.\[\]\*]+\s*(\+|-)?=\s*[^;]+;\s*$", code):
            if not st.startswith(("let ", "return", "break", "continue")):
                out.append((ln, "delete statement", "\n"))
    # spread over the function, deterministic
    if len(out) > max_n:
        out.sort(key=lambda x: hashlib.md5(("%d%s" % (x[0], x[1])).encode()).hexdigest())
        out = out[:max_n]
    return out

def run_one(job):
    wid, unit, relfile, ln, desc, new_line, fn = job
    root = os.path.join(SCR, "w%d" % wid)
    src = os.path.join(root, "src")
    path = os.path.join(root, relfile)
    orig = open(os.path.join("/repo", relfile)).read()
    lines = orig.splitlines(True)
    lines[ln - 1] = new_line
    open(path, "w").write("".join(lines))
    env = dict(os.environ, VERIF_REPO=root, VERIF_GEN=os.path.join(root, "gen"))
    os.makedirs(env["VERIF_GEN"], exist_ok=True)
    try:
        r = subprocess.run([os.path.join(V, "check"), "--unit", unit], env=env, capture_output=True, text=True, timeout=300)
        out = r.stdout
    except subprocess.TimeoutExpired:
        out = "undecided timeout"
    open(path, "w").write(orig)
    first = (out.strip().splitlines() or ["?"])[0]
    status = "killed" if first.startswith("failed") else ("survived" if first.startswith("ok") else "undecided")
    fails = [l.split("|")[0].replace("FAIL", "").strip() for l in out.splitlines() if l.strip().startswith("FAIL")][:3]
    return {"function": fn, "file": relfile, "line": ln, "mutation": desc, "old": orig.splitlines()[ln - 1].strip()[:120],
            "status": status, "failed": fails, "note": first[:160] if status == "undecided" else ""}

def main():
    unit = sys.argv[1]
    jobs_n = 12; max_per = 8; only = None
    a = sys.argv[2:]
    while a:
        if a[0] == "--jobs": jobs_n = int(a[1]); a = a[2:]
        elif a[0] == "--max-per-fn": max_per = int(a[1]); a = a[2:]
        elif a[0] == "--only": only = a[1]; a = a[2:]
        else: a = a[1:]
    # baseline run to get the sidecar
    subprocess.run([os.path.join(V, "check"), "--unit", unit], capture_output=True)
    side = json.load(open(os.path.join(V, "build/gen/%s.json" % unit)))
    own = set(re.findall(r"^@target\s+(\S+)", open(os.path.join(V, "contracts/%s.vc" % unit)).read(), re.M))
    todo = []
    for f in side["functions"]:
        if f["target"] not in own or f.get("auto_extracted_without_contract") or f.get("fragment"):
            continue  # (fragments: only part of the function is under contract; line ranges of the part are not recorded)
        if only and only not in f["target"]:
            continue
        rel = f["source_file"]
        lines = open(os.path.join("/repo", rel)).read().splitlines(True)
        lo, hi = f["source_lines"]
        for (ln, desc, new) in mutants_for(lines, lo + 1, hi, max_per):
            todo.append((rel, ln, desc, new, f["function"]))
    shutil.rmtree(SCR, ignore_errors=True)
    for w in range(jobs_n):
        root = os.path.join(SCR, "w%d" % w)
        os.makedirs(root)
        shutil.copytree("/repo/src", os.path.join(root, "src"))
    results = []
    # one worker directory per concurrent job
    import queue, threading
    q = queue.Queue()
    for t in todo: q.put(t)
    lock = threading.Lock()
    def worker(wid):
        while True:
            try: t = q.get_nowait()
            except queue.Empty: return
            r = run_one((wid, unit) + t)
            with lock: results.append(r)
    ths = [threading.Thread(target=worker, args=(w,)) for w in range(jobs_n)]
    [t.start() for t in ths]; [t.join() for t in ths]
    shutil.rmtree(SCR, ignore_errors=True)
    os.makedirs(os.path.join(V, "build/mutation"), exist_ok=True)
    results.sort(key=lambda r: (r["file"], r["line"], r["mutation"]))
    json.dump(results, open(os.path.join(V, "build/mutation/%s.json" % unit), "w"), indent=1)
    k = sum(r["status"] == "killed" for r in results); s = sum(r["status"] == "survived" for r in results); u = sum(r["status"] == "undecided" for r in results)
    print("unit=%s mutants=%d killed=%d survived=%d undecided=%d" % (unit, len(results), k, s, u))
    for r in results:
        if r["status"] == "survived":
            print("  SURVIVED %s %s:%d  %s   | %s" % (r["function"], r["file"], r["line"], r["mutation"], r["old"]))

if __name__ == "__main__":
    main()
