#!/bin/bash
# usage: tools/confirm_seed.sh <worktree> <seed-id>      e.g. /tmp/wt-C16 C16-1
# Confirms a seeded change independently: (a) suite passes with the change, demo fails with it;
# (b) demo passes without it. Then stores it under /verif/seeded/<seed-id>/.
set -u
WT=$1; ID=$2
cd $WT || exit 2
# private temp dir: the test helpers put work dirs under $TMPDIR/pearl_test/<secs>/<name>, which collides between worktrees
export TMPDIR=$WT/tmp; mkdir -p $TMPDIR
[ -f SEED/patch.diff ] || { echo "no SEED/patch.diff"; exit 2; }
DEMO=$(ls tests/seed_demo.rs 2>/dev/null)
echo "== with change: full suite (demo excluded) =="
cargo test --offline --no-fail-fast -- --skip seed_demo 2>&1 | grep -E "^test result|FAILED|failed" | head -20
echo "== with change: demo =="
if [ -n "$DEMO" ]; then cargo test --offline --test seed_demo 2>&1 | grep -E "^test |test result" | head; else cargo test --offline --lib seed_demo 2>&1 | grep -E "^test |test result" | head; fi
echo "== without change: demo =="
git apply -R SEED/patch.diff || { echo "cannot revert patch"; exit 2; }
if [ -n "$DEMO" ]; then cargo test --offline --test seed_demo 2>&1 | grep -E "^test |test result" | head; else cargo test --offline --lib seed_demo 2>&1 | grep -E "^test |test result" | head; fi
git apply SEED/patch.diff
mkdir -p /verif/seeded/$ID && cp SEED/patch.diff SEED/meta.json /verif/seeded/$ID/ && cp SEED/seed_demo.rs /verif/seeded/$ID/ 2>/dev/null
echo "stored in /verif/seeded/$ID"
