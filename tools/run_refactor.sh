#!/bin/bash
# usage: tools/run_refactor.sh <id> <patch.diff>
# Applies a (behaviour-preserving) patch to a scratch copy of /repo/src and runs EVERY unit on it.
# prints one line per unit that is not `ok`; exit status: number of units that report `failed`
ID=$1; P=$2
D=/scratch/rf/$ID
rm -rf $D; mkdir -p $D && cp -r /repo/src $D/src || exit 99
(cd $D && patch -p1 -s < $P) || { echo "$ID: patch does not apply"; exit 98; }
export VERIF_REPO=$D VERIF_GEN=$D/gen VERIF_EVIDENCE_DIR=$D/ev
fails=0
for u in $(ls /verif/contracts/*.vc | xargs -n1 basename | sed 's/.vc//'); do
  r=$(/verif/check --unit $u 2>&1)
  first=$(echo "$r" | head -1)
  case "$first" in
    ok*) ;;
    failed*) fails=$((fails+1)); echo "$ID $u FAILED"; echo "$r" | sed -n 2,6p | cut -c1-220 ;;
    *) echo "$ID $u $(echo "$first" | cut -c1-200)";;
  esac
done
rm -rf $D
exit $fails
